"""Demo for change B (C12): `Agent.front()` and everything the rewards and
terminations build on it.

Run from the worktree root:  /venv/bin/python _seed/B/demo.py

Part 0 (specific to this change) checks `Agent.front()` against hard-coded
unit steps for every heading, on and off the grid (negative, border, corner,
huge coordinates), after the position / orientation setters, on copied agents,
and against `get_next_position(..., MOVE_FORWARD)`; then the door reward and
the door / pick-and-drop / box dynamics, which all locate "the cell in front"
through it, on doors placed on every side of the agent and on the border, for
every pair of door statuses and every held item.

Parts 1-3 embed an independent reference implementation of every built-in
reward / terminating component (written on raw ``grid.objects[y][x]`` indices,
with its own heading tables, without the library's geometry helpers) and
compare it with the library on

1. arbitrary (state, action, next_state) triples: non-square grids, 1xN and
   Nx1 grids, agent on every cell (borders and corners included), all four
   headings, all eight actions, arbitrary next states and next states produced
   by the real dynamics, colour NONE, zero / several "unique" objects (the
   documented ValueError / StopIteration must be raised identically);
2. all parameter values (negative, zero, huge, inf, int-typed rewards) and
   compositions (reduce_sum / reduce_any / reduce_all, empty lists, nesting);
3. trajectories of the shipped configurations built through the Python API
   (several environments alive in one process, re-seeding): an environment
   pays its exit reward on exactly the steps on which exit-termination fires.

It exits 0 on the pristine tree and with the change applied.
"""
import itertools as itt
import math
import os
import sys
import warnings
from collections import deque

warnings.filterwarnings('ignore')
sys.path.insert(0, os.getcwd())  # run from the worktree root

import numpy as np  # noqa: E402
import numpy.random as rnd  # noqa: E402

from gym_gridverse.action import Action  # noqa: E402
from gym_gridverse.agent import Agent  # noqa: E402
from gym_gridverse.envs import reset_functions as reset_fs  # noqa: E402
from gym_gridverse.envs import reward_functions as reward_fs  # noqa: E402
from gym_gridverse.envs import (  # noqa: E402
    terminating_functions as terminating_fs,
)
from gym_gridverse.envs import transition_functions as transition_fs  # noqa: E402
from gym_gridverse.envs.utils import get_next_position  # noqa: E402
from gym_gridverse.geometry import (  # noqa: E402
    Orientation,
    Position,
    Shape,
    Transform,
)
from gym_gridverse.grid import Grid  # noqa: E402
from gym_gridverse.grid_object import (  # noqa: E402
    Beacon,
    Box,
    Color,
    Door,
    Exit,
    Floor,
    Key,
    MovingObstacle,
    NoneGridObject,
    Telepod,
    Wall,
)
from gym_gridverse.state import State  # noqa: E402
from gym_gridverse.utils.fast_copy import fast_copy  # noqa: E402

CHECKS = 0


def check(condition, *context):
    global CHECKS
    CHECKS += 1
    if not condition:
        print('FAILED', *context)
        sys.exit(1)


# --------------------------------------------------------------------------
# reference implementation (independent of the library's geometry helpers)
# --------------------------------------------------------------------------

HEADINGS = [Orientation.F, Orientation.R, Orientation.B, Orientation.L]
HEADING_DELTA = {
    Orientation.F: (-1, 0),
    Orientation.R: (0, 1),
    Orientation.B: (1, 0),
    Orientation.L: (0, -1),
}
MOVE_QUARTER_TURNS = {
    Action.MOVE_FORWARD: 0,
    Action.MOVE_RIGHT: 1,
    Action.MOVE_BACKWARD: 2,
    Action.MOVE_LEFT: 3,
}


def cell(state, y, x):
    return state.grid.objects[y][x]


def dims(state):
    return len(state.grid.objects), len(state.grid.objects[0])


def inside(state, y, x):
    height, width = dims(state)
    return 0 <= y < height and 0 <= x < width


def attempted_cell(state, action):
    y, x = state.agent.position.y, state.agent.position.x
    if action not in MOVE_QUARTER_TURNS:
        return y, x
    heading = HEADINGS[
        (HEADINGS.index(state.agent.orientation) + MOVE_QUARTER_TURNS[action])
        % 4
    ]
    dy, dx = HEADING_DELTA[heading]
    return y + dy, x + dx


def ref_on(next_state, object_type):
    return isinstance(
        cell(next_state, next_state.agent.position.y, next_state.agent.position.x),
        object_type,
    )


def ref_bump_wall(state, action):
    y, x = attempted_cell(state, action)
    return inside(state, y, x) and isinstance(cell(state, y, x), Wall)


def ref_unique(state, object_type):
    height, width = dims(state)
    found = [
        (y, x)
        for y in range(height)
        for x in range(width)
        if isinstance(cell(state, y, x), object_type)
    ]
    if len(found) != 1:
        raise ValueError('not unique')
    return found[0]


def ref_manhattan(p, q):
    return abs(p[0] - q[0]) + abs(p[1] - q[1])


def ref_euclidean(p, q):
    return math.sqrt((p[0] - q[0]) ** 2 + (p[1] - q[1]) ** 2)


def ref_sign_reward(d_prev, d_next, closer, further):
    if d_next < d_prev:
        return closer
    if d_next > d_prev:
        return further
    return 0.0


def ref_distance(state, object_type, dist):
    return dist(
        (state.agent.position.y, state.agent.position.x),
        ref_unique(state, object_type),
    )


def ref_path_distance(state, object_type):
    source = ref_unique(state, object_type)
    height, width = dims(state)
    free = [
        [not cell(state, y, x).blocks_movement for x in range(width)]
        for y in range(height)
    ]
    distances = {source: 0.0}
    frontier = deque([source])
    while frontier:
        y, x = frontier.popleft()
        for dy, dx in ((-1, 0), (1, 0), (0, -1), (0, 1)):
            n = (y + dy, x + dx)
            if (
                0 <= n[0] < height
                and 0 <= n[1] < width
                and free[n[0]][n[1]]
                and n not in distances
            ):
                distances[n] = distances[(y, x)] + 1
                frontier.append(n)
    return distances.get(
        (state.agent.position.y, state.agent.position.x), float('inf')
    )


def ref_actuate_door(state, action, next_state, reward_open, reward_close):
    if action is not Action.ACTUATE:
        return 0.0
    dy, dx = HEADING_DELTA[state.agent.orientation]
    y, x = state.agent.position.y + dy, state.agent.position.x + dx
    if not inside(state, y, x):
        return 0.0
    door, next_door = cell(state, y, x), cell(next_state, y, x)
    if not isinstance(door, Door) or not isinstance(next_door, Door):
        return 0.0
    if not door.is_open and next_door.is_open:
        return reward_open
    if door.is_open and not next_door.is_open:
        return reward_close
    return 0.0


def ref_pickndrop(state, next_state, object_type, reward_pick, reward_drop):
    had = isinstance(state.agent.grid_object, object_type)
    has = isinstance(next_state.agent.grid_object, object_type)
    if not had and has:
        return reward_pick
    if had and not has:
        return reward_drop
    return 0.0


def ref_reach_exit_memory(next_state, reward_good, reward_bad):
    height, width = dims(next_state)
    beacons = [
        cell(next_state, y, x)
        for y in range(height)
        for x in range(width)
        if isinstance(cell(next_state, y, x), Beacon)
    ]
    if not beacons:
        raise StopIteration
    here = cell(
        next_state, next_state.agent.position.y, next_state.agent.position.x
    )
    if not isinstance(here, Exit):
        return 0.0
    return reward_good if here.color is beacons[0].color else reward_bad


def outcome(function):
    """value, or the exception type: both must agree with the reference"""
    try:
        return ('value', function())
    except (ValueError, StopIteration, IndexError) as error:
        return ('raises', type(error))


def same(a, b):
    if a[0] != b[0]:
        return False
    if a[0] == 'raises':
        return a[1] is b[1]
    x, y = a[1], b[1]
    if isinstance(x, float) and isinstance(y, float) and math.isnan(x):
        return math.isnan(y)
    return x == y and type(x) is type(y)


# --------------------------------------------------------------------------
# library components under test, with their references
# --------------------------------------------------------------------------

REWARD_PARAMETERS = [
    # (on/closer/open/pick/good, off/further/close/drop/bad)
    (1.0, 0.0),
    (5.0, -0.25),
    (-3.5, 7.0),
    (0.0, 0.0),
    (1e300, -1e300),
    (float('inf'), -2.0),
    (3, -2),  # int-typed: returned as given, not coerced
]

OBJECT_TYPES = [Exit, Wall, MovingObstacle, Key, Door, Beacon, Floor, Box]


def components(a, b, object_type):
    """pairs (name, library callable, reference callable) on (s, act, ns)"""
    return [
        (
            'R.overlap',
            lambda s, act, ns: reward_fs.overlap(
                s, act, ns, object_type=object_type, reward_on=a, reward_off=b
            ),
            lambda s, act, ns: a if ref_on(ns, object_type) else b,
        ),
        (
            'R.reach_exit',
            lambda s, act, ns: reward_fs.reach_exit(
                s, act, ns, reward_on=a, reward_off=b
            ),
            lambda s, act, ns: a if ref_on(ns, Exit) else b,
        ),
        (
            'R.bump_moving_obstacle',
            lambda s, act, ns: reward_fs.bump_moving_obstacle(
                s, act, ns, reward=a
            ),
            lambda s, act, ns: a if ref_on(ns, MovingObstacle) else 0.0,
        ),
        (
            'R.bump_into_wall',
            lambda s, act, ns: reward_fs.bump_into_wall(s, act, ns, reward=a),
            lambda s, act, ns: a if ref_bump_wall(s, act) else 0.0,
        ),
        (
            'R.living_reward',
            lambda s, act, ns: reward_fs.living_reward(s, act, ns, reward=a),
            lambda s, act, ns: a,
        ),
        (
            'R.proportional_to_distance',
            lambda s, act, ns: reward_fs.proportional_to_distance(
                s,
                act,
                ns,
                object_type=object_type,
                reward_per_unit_distance=a,
            ),
            lambda s, act, ns: a * ref_distance(ns, object_type, ref_manhattan),
        ),
        (
            'R.proportional_to_distance(euclidean)',
            lambda s, act, ns: reward_fs.proportional_to_distance(
                s,
                act,
                ns,
                object_type=object_type,
                distance_function=Position.euclidean_distance,
                reward_per_unit_distance=a,
            ),
            lambda s, act, ns: a * ref_distance(ns, object_type, ref_euclidean),
        ),
        (
            'R.getting_closer',
            lambda s, act, ns: reward_fs.getting_closer(
                s,
                act,
                ns,
                object_type=object_type,
                reward_closer=a,
                reward_further=b,
            ),
            lambda s, act, ns: ref_sign_reward(
                ref_distance(s, object_type, ref_manhattan),
                ref_distance(ns, object_type, ref_manhattan),
                a,
                b,
            ),
        ),
        (
            'R.getting_closer(euclidean)',
            lambda s, act, ns: reward_fs.getting_closer(
                s,
                act,
                ns,
                object_type=object_type,
                distance_function=Position.euclidean_distance,
                reward_closer=a,
                reward_further=b,
            ),
            lambda s, act, ns: ref_sign_reward(
                ref_distance(s, object_type, ref_euclidean),
                ref_distance(ns, object_type, ref_euclidean),
                a,
                b,
            ),
        ),
        (
            'R.getting_closer_shortest_path',
            lambda s, act, ns: reward_fs.getting_closer_shortest_path(
                s,
                act,
                ns,
                object_type=object_type,
                reward_closer=a,
                reward_further=b,
            ),
            lambda s, act, ns: ref_sign_reward(
                ref_path_distance(s, object_type),
                ref_path_distance(ns, object_type),
                a,
                b,
            ),
        ),
        (
            'R.actuate_door',
            lambda s, act, ns: reward_fs.actuate_door(
                s, act, ns, reward_open=a, reward_close=b
            ),
            lambda s, act, ns: ref_actuate_door(s, act, ns, a, b),
        ),
        (
            'R.pickndrop',
            lambda s, act, ns: reward_fs.pickndrop(
                s,
                act,
                ns,
                object_type=object_type,
                reward_pick=a,
                reward_drop=b,
            ),
            lambda s, act, ns: ref_pickndrop(s, ns, object_type, a, b),
        ),
        (
            'R.reach_exit_memory',
            lambda s, act, ns: reward_fs.reach_exit_memory(
                s, act, ns, reward_good=a, reward_bad=b
            ),
            lambda s, act, ns: ref_reach_exit_memory(ns, a, b),
        ),
        (
            'T.overlap',
            lambda s, act, ns: terminating_fs.overlap(
                s, act, ns, object_type=object_type
            ),
            lambda s, act, ns: ref_on(ns, object_type),
        ),
        (
            'T.reach_exit',
            terminating_fs.reach_exit,
            lambda s, act, ns: ref_on(ns, Exit),
        ),
        (
            'T.bump_moving_obstacle',
            terminating_fs.bump_moving_obstacle,
            lambda s, act, ns: ref_on(ns, MovingObstacle),
        ),
        (
            'T.bump_into_wall',
            terminating_fs.bump_into_wall,
            lambda s, act, ns: ref_bump_wall(s, act),
        ),
    ]


def check_triple(state, action, next_state, a, b, object_type, tag):
    for name, library, reference in components(a, b, object_type):
        got = outcome(lambda: library(state, action, next_state))
        expected = outcome(lambda: reference(state, action, next_state))
        check(
            same(got, expected),
            tag,
            name,
            got,
            expected,
            action,
            state.agent,
            next_state.agent,
            state.grid,
        )
        # deterministic: repeated call, and with an rng that must stay unused
        rng = rnd.default_rng(7)
        before = rng.bit_generator.state
        if name not in ('T.reach_exit', 'T.bump_moving_obstacle', 'T.bump_into_wall'):
            again = outcome(lambda: library(state, action, next_state))
        else:
            again = outcome(lambda: library(state, action, next_state, rng=rng))
        check(same(got, again), tag, name, 'not deterministic')
        check(rng.bit_generator.state == before, tag, name, 'rng consumed')


def check_agreement(state, action, next_state, a, b, tag):
    """reward paid iff termination fires, component by component"""
    if a == b:
        return
    exit_fires = terminating_fs.reach_exit(state, action, next_state)
    check(
        (reward_fs.reach_exit(state, action, next_state, reward_on=a, reward_off=b) == a)
        == exit_fires,
        tag,
        'reach_exit reward/termination disagree',
    )
    if a != 0.0:
        check(
            (reward_fs.bump_into_wall(state, action, next_state, reward=a) == a)
            == terminating_fs.bump_into_wall(state, action, next_state),
            tag,
            'bump_into_wall reward/termination disagree',
        )
        check(
            (reward_fs.bump_moving_obstacle(state, action, next_state, reward=a) == a)
            == terminating_fs.bump_moving_obstacle(state, action, next_state),
            tag,
            'bump_moving_obstacle reward/termination disagree',
        )
    for object_type in OBJECT_TYPES:
        check(
            (
                reward_fs.overlap(
                    state,
                    action,
                    next_state,
                    object_type=object_type,
                    reward_on=a,
                    reward_off=b,
                )
                == a
            )
            == terminating_fs.overlap(
                state, action, next_state, object_type=object_type
            ),
            tag,
            'overlap reward/termination disagree',
            object_type,
        )


# --------------------------------------------------------------------------
# 1. arbitrary triples
# --------------------------------------------------------------------------

COLORS = list(Color)


def random_object(rng):
    kind = rng.integers(0, 12)
    color = COLORS[rng.integers(0, len(COLORS))]
    if kind <= 3:
        return Floor()
    if kind <= 5:
        return Wall()
    if kind == 6:
        return Exit(color)
    if kind == 7:
        return Door(list(Door.Status)[rng.integers(0, 3)], color)
    if kind == 8:
        return Key(color)
    if kind == 9:
        return MovingObstacle()
    if kind == 10:
        return Beacon(color)
    return Telepod(color) if rng.integers(0, 2) else Box(Floor())


def random_grid(rng, height, width):
    return Grid(
        [[random_object(rng) for _ in range(width)] for _ in range(height)]
    )


def random_held(rng):
    k = rng.integers(0, 4)
    if k == 0:
        return None
    if k == 1:
        return Key(COLORS[rng.integers(0, len(COLORS))])
    if k == 2:
        return Floor()
    return Exit()


def sprinkle_unique(rng, grid, object_type_factory, object_type):
    """make `object_type` unique in the grid (so the distance rewards are legal)"""
    height, width = grid.shape.height, grid.shape.width
    for y in range(height):
        for x in range(width):
            if isinstance(grid.objects[y][x], object_type):
                grid.objects[y][x] = Floor()
    y, x = rng.integers(0, height), rng.integers(0, width)
    grid.objects[y][x] = object_type_factory()


SHAPES = [(1, 1), (1, 5), (4, 1), (2, 3), (3, 2), (4, 6), (5, 3)]

DYNAMICS = [
    transition_fs.move_agent,
    transition_fs.turn_agent,
    transition_fs.actuate_door,
    transition_fs.pickndrop,
    transition_fs.move_obstacles,
]


def real_next_state(state, action, rng):
    def chain(s, act, *, rng=None):
        for f in DYNAMICS:
            f(s, act, rng=rng)

    return transition_fs.transition_with_copy(chain, state, action, rng=rng)


def arbitrary_triples():
    rng = rnd.default_rng(20240913)
    count = 0
    for (height, width), round_ in itt.product(SHAPES, range(3)):
        grid = random_grid(rng, height, width)
        other = random_grid(rng, height, width)
        if round_ >= 1:
            # legal input for the distance rewards: exactly one Exit
            sprinkle_unique(rng, grid, Exit, Exit)
            sprinkle_unique(rng, other, Exit, Exit)
        if round_ == 2:
            sprinkle_unique(
                rng, grid, lambda: Beacon(COLORS[rng.integers(0, 5)]), Beacon
            )
        a, b = REWARD_PARAMETERS[count % len(REWARD_PARAMETERS)]
        for y, x, heading, action in itt.product(
            range(height), range(width), HEADINGS, Action
        ):
            state = State(grid, Agent(Position(y, x), heading, random_held(rng)))
            # next state produced by the real dynamics
            try:
                next_real = real_next_state(state, action, rng)
            except Exception:  # dynamics not defined on this arbitrary state
                next_real = None
            # arbitrary next state (other grid, other pose, other item)
            next_arbitrary = State(
                other,
                Agent(
                    Position(rng.integers(0, height), rng.integers(0, width)),
                    HEADINGS[rng.integers(0, 4)],
                    random_held(rng),
                ),
            )
            # same grid, arbitrary pose
            next_same_grid = State(
                grid,
                Agent(
                    Position(rng.integers(0, height), rng.integers(0, width)),
                    HEADINGS[rng.integers(0, 4)],
                    random_held(rng),
                ),
            )
            object_type = OBJECT_TYPES[count % len(OBJECT_TYPES)]
            if round_ >= 1 and count % 2:
                object_type = Exit
            for tag, next_state in (
                ('real', next_real),
                ('arbitrary', next_arbitrary),
                ('same-grid', next_same_grid),
            ):
                if next_state is None:
                    continue
                check_triple(state, action, next_state, a, b, object_type, tag)
                check_agreement(state, action, next_state, a, b, tag)
            count += 1
            a, b = REWARD_PARAMETERS[count % len(REWARD_PARAMETERS)]
    return count


def hand_written_cases():
    """a few hard-coded expectations (not via the reference)"""
    W, F, E = Wall, Floor, Exit
    grid = Grid(
        [
            [W(), W(), W(), W(), W()],
            [W(), F(), F(), E(), W()],
            [W(), W(), W(), W(), W()],
        ]
    )

    def st(y, x, o, held=None):
        return State(grid, Agent(Position(y, x), o, held))

    s = st(1, 2, Orientation.R)
    # moving forward (east) onto the exit: exit fires, no bump
    ns = st(1, 3, Orientation.R)
    check(terminating_fs.reach_exit(s, Action.MOVE_FORWARD, ns) is True)
    check(reward_fs.reach_exit(s, Action.MOVE_FORWARD, ns, reward_on=5.0) == 5.0)
    check(terminating_fs.bump_into_wall(s, Action.MOVE_FORWARD, ns) is False)
    check(reward_fs.bump_into_wall(s, Action.MOVE_FORWARD, ns) == 0.0)
    check(reward_fs.getting_closer(s, Action.MOVE_FORWARD, ns, object_type=E) == 1.0)
    # strafing left (north) targets the border wall: bump fires, stays
    check(terminating_fs.bump_into_wall(s, Action.MOVE_LEFT, s) is True)
    check(reward_fs.bump_into_wall(s, Action.MOVE_LEFT, s, reward=-2.5) == -2.5)
    check(terminating_fs.bump_into_wall(s, Action.MOVE_RIGHT, s) is True)
    check(terminating_fs.bump_into_wall(s, Action.MOVE_BACKWARD, s) is False)
    for action in (Action.TURN_LEFT, Action.TURN_RIGHT, Action.ACTUATE, Action.PICK_N_DROP):
        check(terminating_fs.bump_into_wall(s, action, s) is False)
        check(reward_fs.bump_into_wall(s, action, s, reward=-2.5) == 0.0)
    # corner of the grid, heading out of the grid: target is outside, no bump
    corner = st(0, 0, Orientation.F)
    check(terminating_fs.bump_into_wall(corner, Action.MOVE_FORWARD, corner) is False)
    check(reward_fs.bump_into_wall(corner, Action.MOVE_FORWARD, corner, reward=9.0) == 0.0)
    check(terminating_fs.bump_into_wall(corner, Action.MOVE_LEFT, corner) is False)
    check(terminating_fs.bump_into_wall(corner, Action.MOVE_RIGHT, corner) is True)
    # standing on a wall and not moving: the (unchanged) target cell is a wall
    check(terminating_fs.bump_into_wall(corner, Action.TURN_LEFT, corner) is True)
    check(reward_fs.bump_into_wall(corner, Action.TURN_LEFT, corner, reward=9.0) == 9.0)
    last = st(2, 4, Orientation.B)
    check(terminating_fs.bump_into_wall(last, Action.MOVE_FORWARD, last) is False)
    check(terminating_fs.bump_into_wall(last, Action.MOVE_LEFT, last) is False)
    check(terminating_fs.bump_into_wall(last, Action.MOVE_BACKWARD, last) is True)
    check(terminating_fs.bump_into_wall(last, Action.MOVE_RIGHT, last) is True)
    # overlap with a base class / reward_off
    check(reward_fs.overlap(s, Action.ACTUATE, s, object_type=F, reward_on=2.0, reward_off=-2.0) == 2.0)
    check(reward_fs.overlap(s, Action.ACTUATE, s, object_type=W, reward_on=2.0, reward_off=-2.0) == -2.0)
    # memory: colour NONE matches colour NONE
    mem = Grid([[Beacon(Color.NONE), F(), Exit(Color.NONE), Exit(Color.RED)]])
    on_none = State(mem, Agent(Position(0, 2), Orientation.F))
    on_red = State(mem, Agent(Position(0, 3), Orientation.F))
    off = State(mem, Agent(Position(0, 1), Orientation.F))
    check(reward_fs.reach_exit_memory(off, Action.MOVE_RIGHT, on_none, reward_good=5.0, reward_bad=-5.0) == 5.0)
    check(reward_fs.reach_exit_memory(off, Action.MOVE_RIGHT, on_red, reward_good=5.0, reward_bad=-5.0) == -5.0)
    check(reward_fs.reach_exit_memory(off, Action.MOVE_RIGHT, off, reward_good=5.0, reward_bad=-5.0) == 0.0)


# --------------------------------------------------------------------------
# 2. compositions
# --------------------------------------------------------------------------


def compositions():
    rng = rnd.default_rng(99)
    grid = random_grid(rng, 4, 5)
    sprinkle_unique(rng, grid, Exit, Exit)
    for y, x, heading, action in itt.product(range(4), range(5), HEADINGS, Action):
        state = State(grid, Agent(Position(y, x), heading))
        next_state = State(
            grid,
            Agent(Position(rng.integers(0, 4), rng.integers(0, 5)), HEADINGS[rng.integers(0, 4)]),
        )
        args = (state, action, next_state)

        parts = [
            reward_fs.factory('reach_exit', reward_on=5.0, reward_off=0.0),
            reward_fs.factory('bump_into_wall', reward=-1.0),
            reward_fs.factory('bump_moving_obstacle', reward=-1.0),
            reward_fs.factory(
                'getting_closer',
                object_type=Exit,
                reward_closer=0.2,
                reward_further=-0.2,
                distance_function=Position.manhattan_distance,
            ),
            reward_fs.factory('living_reward', reward=-0.05),
            reward_fs.factory('overlap', object_type=Wall, reward_on=-3.0),
        ]
        total = reward_fs.factory('reduce_sum', reward_functions=parts)
        expected = sum(
            [
            5.0 if ref_on(next_state, Exit) else 0.0,
            -1.0 if ref_bump_wall(state, action) else 0.0,
            -1.0 if ref_on(next_state, MovingObstacle) else 0.0,
            ref_sign_reward(
                ref_distance(state, Exit, ref_manhattan),
                ref_distance(next_state, Exit, ref_manhattan),
                0.2,
                -0.2,
            ),
            -0.05,
            -3.0 if ref_on(next_state, Wall) else 0.0,
            ]
        )  # builtin sum: "a composite reward is the sum of its parts"
        check(total(*args) == expected, 'reduce_sum', total(*args), expected)
        check(total(*args) == sum(p(*args) for p in parts), 'reduce_sum parts')
        # nesting, empty list, generic reduce
        nested = reward_fs.factory(
            'reduce_sum',
            reward_functions=[total, reward_fs.factory('reduce_sum', reward_functions=[])],
        )
        check(nested(*args) == sum([expected, 0]), 'nested sum')
        check(reward_fs.reduce_sum(*args, reward_functions=[]) == 0, 'empty sum')
        check(
            reward_fs.reduce(*args, reward_functions=parts, reduction=max)
            == max(p(*args) for p in parts),
            'reduce max',
        )

        terms = [
            terminating_fs.factory('reach_exit'),
            terminating_fs.factory('bump_moving_obstacle'),
            terminating_fs.factory('bump_into_wall'),
            terminating_fs.factory('overlap', object_type=Key),
        ]
        refs = [
            ref_on(next_state, Exit),
            ref_on(next_state, MovingObstacle),
            ref_bump_wall(state, action),
            ref_on(next_state, Key),
        ]
        any_ = terminating_fs.factory('reduce_any', terminating_functions=terms)
        all_ = terminating_fs.factory('reduce_all', terminating_functions=terms)
        check(any_(*args) is any(refs), 'reduce_any')
        check(all_(*args) is all(refs), 'reduce_all')
        check(terminating_fs.reduce_any(*args, terminating_functions=[]) is False)
        check(terminating_fs.reduce_all(*args, terminating_functions=[]) is True)
        nested_any = terminating_fs.factory(
            'reduce_any', terminating_functions=[all_, terms[0]]
        )
        check(nested_any(*args) is (all(refs) or refs[0]), 'nested any')
        # the exit part of the composite reward is paid iff exit-termination fires
        check((parts[0](*args) == 5.0) is terms[0](*args), 'exit part vs termination')
        check((parts[1](*args) == -1.0) is terms[2](*args), 'wall part vs termination')
        check((parts[2](*args) == -1.0) is terms[1](*args), 'obstacle part vs termination')

    # factory argument checking is unchanged
    for bad in (
        lambda: reward_fs.factory('no_such_reward'),
        lambda: reward_fs.factory('overlap'),  # missing object_type
        lambda: terminating_fs.factory('no_such_termination'),
        lambda: terminating_fs.factory('overlap'),
    ):
        try:
            bad()
        except ValueError:
            check(True)
        else:
            check(False, 'factory should raise ValueError')
    # extra keys are ignored
    f = reward_fs.factory('bump_into_wall', reward=-4.0, unknown=1)
    check(f.keywords == {'reward': -4.0})


# --------------------------------------------------------------------------
# 3. trajectories of the shipped configurations (built through the API)
# --------------------------------------------------------------------------

MOVE_TURN = ['move_agent', 'turn_agent']
SIX = list(Action)[:6]
EIGHT = list(Action)
ALL_COLORS = {Color.RED, Color.GREEN, Color.BLUE, Color.YELLOW}


def standard_rewards(extra=()):
    return [
        ('reach_exit', dict(reward_on=5.0, reward_off=0.0)),
        *extra,
        (
            'getting_closer',
            dict(
                distance_function=Position.manhattan_distance,
                object_type=Exit,
                reward_closer=0.2,
                reward_further=-0.2,
            ),
        ),
        ('living_reward', dict(reward=-0.05)),
    ]


MEMORY_REWARDS = [
    ('reach_exit_memory', dict(reward_good=5.0, reward_bad=-5.0)),
    ('living_reward', dict(reward=-0.05)),
]

CONFIGURATIONS = {
    'empty.4x4': (('empty', dict(shape=Shape(4, 4), random_agent=True)), MOVE_TURN, standard_rewards(), ['reach_exit'], SIX),
    'empty.8x8': (('empty', dict(shape=Shape(8, 8), random_agent=True)), MOVE_TURN, standard_rewards(), ['reach_exit'], SIX),
    'four_rooms.7x7': (('rooms', dict(shape=Shape(7, 7), layout=(2, 2))), MOVE_TURN, standard_rewards(), ['reach_exit'], SIX),
    'nine_rooms.10x10': (('rooms', dict(shape=Shape(10, 10), layout=(3, 3))), MOVE_TURN, standard_rewards(), ['reach_exit'], SIX),
    'crossing.7x7': (('crossing', dict(shape=Shape(7, 7), num_rivers=2, object_type=Wall)), MOVE_TURN, standard_rewards(), ['reach_exit'], SIX),
    'teleport.7x7': (('teleport', dict(shape=Shape(7, 7))), MOVE_TURN + ['teleport'], standard_rewards(), ['reach_exit'], SIX),
    'dynamic_obstacles.7x7': (
        ('dynamic_obstacles', dict(shape=Shape(7, 7), num_obstacles=2, random_agent=False)),
        MOVE_TURN + ['move_obstacles'],
        standard_rewards(
            extra=[
                ('bump_moving_obstacle', dict(reward=-1.0)),
                ('bump_into_wall', dict(reward=-1.0)),
            ]
        ),
        ['reach_exit', 'bump_moving_obstacle', 'bump_into_wall'],
        SIX,
    ),
    'keydoor.7x7': (
        ('keydoor', dict(shape=Shape(7, 7))),
        MOVE_TURN + ['actuate_door', 'pickndrop'],
        standard_rewards(
            extra=[
                ('pickndrop', dict(object_type=Key, reward_pick=1.0, reward_drop=-1.0)),
                ('actuate_door', dict(reward_open=1.0, reward_close=-1.0)),
            ]
        ),
        ['reach_exit'],
        EIGHT,
    ),
    'memory.5x5': (('memory', dict(shape=Shape(5, 5), colors=ALL_COLORS)), MOVE_TURN, MEMORY_REWARDS, ['reach_exit'], SIX),
    'memory.9x9': (('memory', dict(shape=Shape(9, 9), colors=ALL_COLORS)), MOVE_TURN, MEMORY_REWARDS, ['reach_exit'], SIX),
    'memory_four_rooms.7x7': (
        ('memory_rooms', dict(shape=Shape(7, 7), layout=(2, 2), colors=ALL_COLORS, num_beacons=1, num_exits=2)),
        MOVE_TURN,
        MEMORY_REWARDS,
        ['reach_exit'],
        SIX,
    ),
    # not shipped, but legal and awkward: a non-square empty room
    'empty.4x9': (('empty', dict(shape=Shape(4, 9), random_agent=True, random_exit=True)), MOVE_TURN, standard_rewards(extra=[('bump_into_wall', dict(reward=-1.0))]), ['reach_exit', 'bump_into_wall'], SIX),
}


def ref_part(name, kwargs, s, act, ns):
    if name == 'reach_exit':
        return kwargs['reward_on'] if ref_on(ns, Exit) else kwargs['reward_off']
    if name == 'bump_moving_obstacle':
        return kwargs['reward'] if ref_on(ns, MovingObstacle) else 0.0
    if name == 'bump_into_wall':
        return kwargs['reward'] if ref_bump_wall(s, act) else 0.0
    if name == 'getting_closer':
        return ref_sign_reward(
            ref_distance(s, Exit, ref_manhattan),
            ref_distance(ns, Exit, ref_manhattan),
            kwargs['reward_closer'],
            kwargs['reward_further'],
        )
    if name == 'living_reward':
        return kwargs['reward']
    if name == 'pickndrop':
        return ref_pickndrop(s, ns, Key, kwargs['reward_pick'], kwargs['reward_drop'])
    if name == 'actuate_door':
        return ref_actuate_door(s, act, ns, kwargs['reward_open'], kwargs['reward_close'])
    if name == 'reach_exit_memory':
        return ref_reach_exit_memory(ns, kwargs['reward_good'], kwargs['reward_bad'])
    raise AssertionError(name)


def ref_term(name, s, act, ns):
    if name == 'reach_exit':
        return ref_on(ns, Exit)
    if name == 'bump_moving_obstacle':
        return ref_on(ns, MovingObstacle)
    if name == 'bump_into_wall':
        return ref_bump_wall(s, act)
    raise AssertionError(name)


class Env:
    def __init__(self, name):
        (reset_name, reset_kwargs), transitions, rewards, terms, actions = CONFIGURATIONS[name]
        self.name = name
        self.reset_function = reset_fs.factory(reset_name, **reset_kwargs)
        self.transition = transition_fs.factory(
            'chain',
            transition_functions=[transition_fs.factory(t) for t in transitions],
        )
        self.reward_spec = rewards
        self.term_spec = terms
        self.reward = reward_fs.factory(
            'reduce_sum',
            reward_functions=[reward_fs.factory(n, **k) for n, k in rewards],
        )
        term_functions = [terminating_fs.factory(t) for t in terms]
        self.termination = (
            term_functions[0]
            if len(term_functions) == 1
            else terminating_fs.factory('reduce_any', terminating_functions=term_functions)
        )
        self.actions = actions
        self.seed(0)

    def seed(self, seed):
        self.rng = rnd.default_rng(seed)
        self.policy = rnd.default_rng(seed + 1000)

    def reset(self):
        self.state = self.reset_function(rng=self.rng)

    def step(self):
        action = self.actions[self.policy.integers(0, len(self.actions))]
        state = self.state
        next_state = transition_fs.transition_with_copy(
            self.transition, state, action, rng=self.rng
        )
        reward = self.reward(state, action, next_state)
        terminal = self.termination(state, action, next_state)

        expected = sum(
            [ref_part(n, k, state, action, next_state) for n, k in self.reward_spec]
        )
        check(reward == expected, self.name, 'reward', reward, expected, action)
        expected_terminal = any(
            ref_term(t, state, action, next_state) for t in self.term_spec
        )
        check(terminal is expected_terminal, self.name, 'terminal', action)

        # the exit reward is paid on exactly the steps exit-termination fires
        exit_fired = terminating_fs.reach_exit(state, action, next_state)
        for n, k in self.reward_spec:
            if n == 'reach_exit':
                paid = reward_fs.reach_exit(state, action, next_state, **k)
                check((paid == k['reward_on']) is exit_fired, self.name, 'exit pay')
            if n == 'reach_exit_memory':
                paid = reward_fs.reach_exit_memory(state, action, next_state, **k)
                check((paid != 0.0) is exit_fired, self.name, 'memory exit pay')
            if n in ('bump_into_wall', 'bump_moving_obstacle') and n in self.term_spec:
                paid = getattr(reward_fs, n)(state, action, next_state, **k)
                fired = getattr(terminating_fs, n)(state, action, next_state)
                check((paid == k['reward']) is fired, self.name, n, 'pay')
        if exit_fired:
            check(terminal is True, self.name, 'exit must terminate')

        self.state = next_state
        return reward, terminal, exit_fired


def trajectories():
    # several environments alive at once, stepped in an interleaved fashion
    envs = [Env(name) for name in CONFIGURATIONS]
    exits = 0
    recorded = {}
    for seed in (0, 1, 2):
        for env in envs:
            env.seed(seed)
            env.reset()
        traces = {env.name: [] for env in envs}
        for _ in range(400):
            for env in envs:
                reward, terminal, exit_fired = env.step()
                traces[env.name].append((reward, terminal))
                exits += exit_fired
                if terminal:
                    env.reset()
        recorded[seed] = traces
    # re-seeding reproduces the very same rewards and terminations
    for env in envs:
        env.seed(1)
        env.reset()
    for i in range(400):
        for env in envs:
            reward, terminal, _ = env.step()
            check(
                (reward, terminal) == recorded[1][env.name][i],
                env.name,
                're-seeding changed the trajectory',
            )
            if terminal:
                env.reset()
    check(exits > 20, 'too few exits reached to be meaningful', exits)
    return exits


# --------------------------------------------------------------------------
# 0. Agent.front() and its direct users
# --------------------------------------------------------------------------

EXPECTED_STEP = {
    Orientation.F: (-1, 0),  # north: y decreases
    Orientation.R: (0, 1),  # east
    Orientation.B: (1, 0),  # south
    Orientation.L: (0, -1),  # west
}


def front_cases():
    coordinates = [-3, -1, 0, 1, 2, 6, 10**12, -(10**12)]
    for y, x, heading in itt.product(coordinates, coordinates, list(Orientation)):
        dy, dx = EXPECTED_STEP[heading]
        agent = Agent(Position(y, x), heading)
        front = agent.front()
        check(type(front) is Position, 'front type')
        check((front.y, front.x) == (y + dy, x + dx), 'front', y, x, heading, front)
        check(front == Position(y + dy, x + dx))
        check(hash(front) == hash(Position(y + dy, x + dx)))
        # same cell as the attempted forward move used by bump_into_wall
        check(front == get_next_position(agent.position, agent.orientation, Action.MOVE_FORWARD))
        # and as the transform product
        check(front == agent.transform * Position(-1, 0))
        check(front == Transform(Position(y, x), heading) * Position.from_orientation(Orientation.F))
        # the agent is left untouched, repeated calls agree and are fresh values
        check(agent.position == Position(y, x) and agent.orientation is heading)
        again = agent.front()
        check(again == front)
        check(agent == Agent(Position(y, x), heading))
        check(hash(agent) == hash(Agent(Position(y, x), heading)))
        # the cached unit steps are not disturbed
        for o, (ey, ex) in EXPECTED_STEP.items():
            step = Position.from_orientation(o)
            check((step.y, step.x) == (ey, ex), 'cached step changed')

    # setters: front follows the current pose (four full turns, a walk)
    agent = Agent(Position(2, 3), Orientation.F, Key(Color.NONE))
    for heading in list(Orientation) * 2:
        agent.orientation = heading
        dy, dx = EXPECTED_STEP[heading]
        check(agent.front().yx == (2 + dy, 3 + dx))
        agent.position = agent.front()
        check(agent.position.yx == (2 + dy, 3 + dx))
        agent.position = Position(2, 3)
    agent.transform = Transform(Position(7, -4), Orientation.L)
    check(agent.front().yx == (7, -5))
    # copies are independent
    copy = fast_copy(agent)
    copy.orientation = Orientation.B
    copy.position = Position(0, 0)
    check(copy.front().yx == (1, 0))
    check(agent.front().yx == (7, -5))
    # orientation aliases
    check(Agent(Position(0, 0), Orientation.FORWARD).front().yx == (-1, 0))
    check(Agent(Position(0, 0), Orientation.RIGHT).front().yx == (0, 1))
    check(Agent(Position(0, 0), Orientation.BACKWARD).front().yx == (1, 0))
    check(Agent(Position(0, 0), Orientation.LEFT).front().yx == (0, -1))


def door_grid(status_by_side, color=Color.YELLOW):
    """3x3 grid, agent cell in the middle, one door per side"""
    F = Floor
    grid = Grid([[F(), F(), F()], [F(), F(), F()], [F(), F(), F()]])
    for heading, status in status_by_side.items():
        dy, dx = EXPECTED_STEP[heading]
        grid.objects[1 + dy][1 + dx] = Door(status, color)
    return grid


def door_cases():
    statuses = list(Door.Status)
    is_open = {Door.Status.OPEN: True, Door.Status.CLOSED: False, Door.Status.LOCKED: False}
    for heading, before, after, other_before, other_after in itt.product(
        list(Orientation), statuses, statuses, statuses, statuses
    ):
        others = [o for o in EXPECTED_STEP if o is not heading]
        grid = door_grid({heading: before, **{o: other_before for o in others}})
        next_grid = door_grid({heading: after, **{o: other_after for o in others}})
        for next_heading in list(Orientation):
            state = State(grid, Agent(Position(1, 1), heading))
            next_state = State(next_grid, Agent(Position(1, 1), next_heading))
            expected = (
                2.5
                if not is_open[before] and is_open[after]
                else -1.5
                if is_open[before] and not is_open[after]
                else 0.0
            )
            for action in Action:
                got = reward_fs.actuate_door(
                    state, action, next_state, reward_open=2.5, reward_close=-1.5
                )
                check(
                    got == (expected if action is Action.ACTUATE else 0.0),
                    'actuate_door reward',
                    heading,
                    before,
                    after,
                    action,
                    got,
                )

    # doors / non-doors on the border, agent in corners facing out of the grid
    row = Grid([[Door(Door.Status.CLOSED, Color.RED), Floor(), Door(Door.Status.OPEN, Color.NONE)]])
    row_next = Grid([[Door(Door.Status.OPEN, Color.RED), Floor(), Door(Door.Status.CLOSED, Color.NONE)]])
    expectations = {
        (0, Orientation.L): 0.0,  # faces out of the grid (x = -1 must not wrap)
        (0, Orientation.F): 0.0,  # y = -1 must not wrap
        (0, Orientation.B): 0.0,
        (0, Orientation.R): 0.0,  # floor in front
        (1, Orientation.L): 1.0,  # closed -> open
        (1, Orientation.R): -1.0,  # open -> closed
        (1, Orientation.F): 0.0,
        (1, Orientation.B): 0.0,
        (2, Orientation.R): 0.0,  # x = 3 is outside
        (2, Orientation.L): 0.0,
    }
    for (x, heading), expected in expectations.items():
        state = State(row, Agent(Position(0, x), heading))
        next_state = State(row_next, Agent(Position(0, x), heading))
        check(
            reward_fs.actuate_door(state, Action.ACTUATE, next_state) == expected,
            'border door',
            x,
            heading,
        )
    # the door in front is replaced by something else in the next state
    gone = Grid([[Floor(), Floor(), Floor()]])
    state = State(row, Agent(Position(0, 1), Orientation.L))
    check(reward_fs.actuate_door(state, Action.ACTUATE, State(gone, state.agent)) == 0.0)

    # real dynamics: the reward fires exactly when the door in front opens
    for heading, status, held in itt.product(
        list(Orientation),
        statuses,
        [None, Key(Color.YELLOW), Key(Color.RED), Key(Color.NONE)],
    ):
        grid = door_grid({heading: status})
        state = State(grid, Agent(Position(1, 1), heading, held))
        for action in Action:
            next_state = transition_fs.transition_with_copy(
                transition_fs.actuate_door, state, action
            )
            dy, dx = EXPECTED_STEP[heading]
            opens = action is Action.ACTUATE and (
                status is Door.Status.CLOSED
                or (
                    status is Door.Status.LOCKED
                    and held is not None
                    and held.color is Color.YELLOW
                )
            )
            check(
                next_state.grid.objects[1 + dy][1 + dx].is_open
                is (status is Door.Status.OPEN or opens),
                'door dynamics',
                heading,
                status,
                held,
                action,
            )
            check(
                reward_fs.actuate_door(state, action, next_state, reward_open=3.0)
                == (3.0 if opens else 0.0),
                'door reward on real dynamics',
            )
            # the input state is not modified by the copying transition
            check(state.grid.objects[1 + dy][1 + dx].state is status)
            # facing away: nothing happens, nothing is paid
            opposite = HEADINGS[(HEADINGS.index(heading) + 2) % 4]
            away = State(grid, Agent(Position(1, 1), opposite, held))
            next_away = transition_fs.transition_with_copy(
                transition_fs.actuate_door, away, action
            )
            check(next_away.grid.objects[1 + dy][1 + dx].state is status)
            check(reward_fs.actuate_door(away, action, next_away) == 0.0)

    # pick and drop / box: the cell in front, for every heading, incl. off-grid
    for heading in list(Orientation):
        dy, dx = EXPECTED_STEP[heading]
        grid = Grid([[Floor() for _ in range(3)] for _ in range(3)])
        grid.objects[1 + dy][1 + dx] = Key(Color.BLUE)
        state = State(grid, Agent(Position(1, 1), heading))
        next_state = transition_fs.transition_with_copy(
            transition_fs.pickndrop, state, Action.PICK_N_DROP
        )
        check(isinstance(next_state.agent.grid_object, Key))
        check(isinstance(next_state.grid.objects[1 + dy][1 + dx], Floor))
        check(
            reward_fs.pickndrop(state, Action.PICK_N_DROP, next_state, object_type=Key, reward_pick=4.0) == 4.0
        )
        dropped = transition_fs.transition_with_copy(
            transition_fs.pickndrop, next_state, Action.PICK_N_DROP
        )
        check(isinstance(dropped.agent.grid_object, NoneGridObject))
        check(isinstance(dropped.grid.objects[1 + dy][1 + dx], Key))
        check(
            reward_fs.pickndrop(next_state, Action.PICK_N_DROP, dropped, object_type=Key, reward_drop=-4.0) == -4.0
        )
        # from the border cell facing out: nothing in front, nothing happens
        edge = State(
            fast_copy(grid), Agent(Position(1 + dy, 1 + dx), heading, Key(Color.RED))
        )
        edge_next = transition_fs.transition_with_copy(
            transition_fs.pickndrop, edge, Action.PICK_N_DROP
        )
        check(edge_next.grid == edge.grid and edge_next.agent == edge.agent)
        check(reward_fs.pickndrop(edge, Action.PICK_N_DROP, edge_next, object_type=Key) == 0.0)

        box_grid = Grid([[Floor() for _ in range(3)] for _ in range(3)])
        box_grid.objects[1 + dy][1 + dx] = Box(Key(Color.GREEN))
        box_state = State(box_grid, Agent(Position(1, 1), heading))
        opened = transition_fs.transition_with_copy(
            transition_fs.actuate_box, box_state, Action.ACTUATE
        )
        check(isinstance(opened.grid.objects[1 + dy][1 + dx], Key))
        for oy, ox in itt.product(range(3), range(3)):
            if (oy, ox) != (1 + dy, 1 + dx):
                check(isinstance(opened.grid.objects[oy][ox], Floor))


def main():
    front_cases()
    door_cases()
    hand_written_cases()
    n = arbitrary_triples()
    compositions()
    exits = trajectories()
    print(
        f'OK: {CHECKS} checks, {n} (state, action) pairs x 3 next states, '
        f'{exits} exits reached on trajectories'
    )


if __name__ == '__main__':
    main()
