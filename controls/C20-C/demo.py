"""C20 demo for refactoring C (reset/step protocol and registration).

Refactoring C rewrites `GymEnvironment.reset/step`, `GymStateWrapper.reset/step`,
`outer_env_factory` and the module-level registration loop.  This program
checks, against references re-implemented here (`Shadow`, `StubModel`,
`reference_gym_space`, `EXPECTED_IDS`), that index i runs the i-th action,
that reset/step return the representation of the fresh/post-step state
together with the inner reward and done flag, the exact order of inner calls
and random draws, the info dictionary protocol of the state wrapper, and the
registry entries / factories behind all registered ids.

Run as:  cd /tmp/wt3-C20 && /venv/bin/python -W ignore _seed/C/demo.py
"""

import copy
import itertools
import os
import random
import sys

sys.path.insert(0, os.getcwd())

import gym  # noqa: E402
import numpy as np  # noqa: E402

import gym_gridverse.gym as gv_gym  # noqa: E402
from gym_gridverse.action import Action  # noqa: E402
from gym_gridverse.envs.inner_env import InnerEnv  # noqa: E402
from gym_gridverse.envs.yaml.factory import factory_env_from_data  # noqa: E402
from gym_gridverse.gym import (  # noqa: E402
    GymEnvironment,
    GymStateWrapper,
    outer_space_to_gym_space,
)
from gym_gridverse.outer_env import OuterEnv  # noqa: E402
from gym_gridverse.representations.observation_representations import (  # noqa: E402
    make_observation_representation,
)
from gym_gridverse.representations.spaces import Space, SpaceType  # noqa: E402
from gym_gridverse.representations.state_representations import (  # noqa: E402
    make_state_representation,
)
from gym_gridverse.spaces import ActionSpace  # noqa: E402

# --------------------------------------------------------------------------
# shipped configurations, transcribed once from gym_gridverse/registered_envs
# (PyYAML is not available at runtime, so the data is inlined as literals)
# --------------------------------------------------------------------------

CONFIGS = {
    'gv_crossing.5x5.yaml': {'state_space': {'objects': ['Wall', 'Floor', 'Exit'], 'colors': ['NONE']}, 'action_space': ['MOVE_FORWARD', 'MOVE_BACKWARD', 'MOVE_LEFT', 'MOVE_RIGHT', 'TURN_LEFT', 'TURN_RIGHT'], 'observation_space': {'objects': ['Wall', 'Floor', 'Exit'], 'colors': ['NONE']}, 'reset_function': {'name': 'crossing', 'shape': [5, 5], 'num_rivers': 1, 'object_type': 'Wall'}, 'transition_functions': [{'name': 'move_agent'}, {'name': 'turn_agent'}], 'reward_functions': [{'name': 'reach_exit', 'reward_on': 5.0, 'reward_off': 0.0}, {'name': 'getting_closer', 'distance_function': 'manhattan', 'object_type': 'Exit', 'reward_closer': 0.2, 'reward_further': -0.2}, {'name': 'living_reward', 'reward': -0.05}], 'observation_function': {'name': 'partially_occluded', 'area': [[-6, 0], [-3, 3]]}, 'terminating_function': {'name': 'reach_exit'}},
    'gv_crossing.7x7.yaml': {'state_space': {'objects': ['Wall', 'Floor', 'Exit'], 'colors': ['NONE']}, 'action_space': ['MOVE_FORWARD', 'MOVE_BACKWARD', 'MOVE_LEFT', 'MOVE_RIGHT', 'TURN_LEFT', 'TURN_RIGHT'], 'observation_space': {'objects': ['Wall', 'Floor', 'Exit'], 'colors': ['NONE']}, 'reset_function': {'name': 'crossing', 'shape': [7, 7], 'num_rivers': 2, 'object_type': 'Wall'}, 'transition_functions': [{'name': 'move_agent'}, {'name': 'turn_agent'}], 'reward_functions': [{'name': 'reach_exit', 'reward_on': 5.0, 'reward_off': 0.0}, {'name': 'getting_closer', 'distance_function': 'manhattan', 'object_type': 'Exit', 'reward_closer': 0.2, 'reward_further': -0.2}, {'name': 'living_reward', 'reward': -0.05}], 'observation_function': {'name': 'partially_occluded', 'area': [[-6, 0], [-3, 3]]}, 'terminating_function': {'name': 'reach_exit'}},
    'gv_dynamic_obstacles.5x5.yaml': {'state_space': {'objects': ['Wall', 'Floor', 'Exit', 'MovingObstacle'], 'colors': ['NONE']}, 'action_space': ['MOVE_FORWARD', 'MOVE_BACKWARD', 'MOVE_LEFT', 'MOVE_RIGHT', 'TURN_LEFT', 'TURN_RIGHT'], 'observation_space': {'objects': ['Wall', 'Floor', 'Exit', 'MovingObstacle'], 'colors': ['NONE']}, 'reset_function': {'name': 'dynamic_obstacles', 'shape': [5, 5], 'num_obstacles': 1, 'random_agent': False}, 'transition_functions': [{'name': 'move_agent'}, {'name': 'turn_agent'}, {'name': 'move_obstacles'}], 'reward_functions': [{'name': 'reach_exit', 'reward_on': 5.0, 'reward_off': 0.0}, {'name': 'bump_moving_obstacle', 'reward': -1.0}, {'name': 'bump_into_wall', 'reward': -1.0}, {'name': 'getting_closer', 'distance_function': 'manhattan', 'object_type': 'Exit', 'reward_closer': 0.2, 'reward_further': -0.2}, {'name': 'living_reward', 'reward': -0.05}], 'observation_function': {'name': 'partially_occluded', 'area': [[-6, 0], [-3, 3]]}, 'terminating_function': {'name': 'reduce_any', 'terminating_functions': [{'name': 'reach_exit'}, {'name': 'bump_moving_obstacle'}, {'name': 'bump_into_wall'}]}},
    'gv_dynamic_obstacles.7x7.yaml': {'state_space': {'objects': ['Wall', 'Floor', 'Exit', 'MovingObstacle'], 'colors': ['NONE']}, 'action_space': ['MOVE_FORWARD', 'MOVE_BACKWARD', 'MOVE_LEFT', 'MOVE_RIGHT', 'TURN_LEFT', 'TURN_RIGHT'], 'observation_space': {'objects': ['Wall', 'Floor', 'Exit', 'MovingObstacle'], 'colors': ['NONE']}, 'reset_function': {'name': 'dynamic_obstacles', 'shape': [7, 7], 'num_obstacles': 2, 'random_agent': False}, 'transition_functions': [{'name': 'move_agent'}, {'name': 'turn_agent'}, {'name': 'move_obstacles'}], 'reward_functions': [{'name': 'reach_exit', 'reward_on': 5.0, 'reward_off': 0.0}, {'name': 'bump_moving_obstacle', 'reward': -1.0}, {'name': 'bump_into_wall', 'reward': -1.0}, {'name': 'getting_closer', 'distance_function': 'manhattan', 'object_type': 'Exit', 'reward_closer': 0.2, 'reward_further': -0.2}, {'name': 'living_reward', 'reward': -0.05}], 'observation_function': {'name': 'partially_occluded', 'area': [[-6, 0], [-3, 3]]}, 'terminating_function': {'name': 'reduce_any', 'terminating_functions': [{'name': 'reach_exit'}, {'name': 'bump_moving_obstacle'}, {'name': 'bump_into_wall'}]}},
    'gv_empty.4x4.yaml': {'state_space': {'objects': ['Wall', 'Floor', 'Exit'], 'colors': ['NONE']}, 'action_space': ['MOVE_FORWARD', 'MOVE_BACKWARD', 'MOVE_LEFT', 'MOVE_RIGHT', 'TURN_LEFT', 'TURN_RIGHT'], 'observation_space': {'objects': ['Wall', 'Floor', 'Exit'], 'colors': ['NONE']}, 'reset_function': {'name': 'empty', 'shape': [4, 4], 'random_agent': True}, 'transition_functions': [{'name': 'move_agent'}, {'name': 'turn_agent'}], 'reward_functions': [{'name': 'reach_exit', 'reward_on': 5.0, 'reward_off': 0.0}, {'name': 'getting_closer', 'distance_function': 'manhattan', 'object_type': 'Exit', 'reward_closer': 0.2, 'reward_further': -0.2}, {'name': 'living_reward', 'reward': -0.05}], 'observation_function': {'name': 'partially_occluded', 'area': [[-6, 0], [-3, 3]]}, 'terminating_function': {'name': 'reach_exit'}},
    'gv_empty.8x8.yaml': {'state_space': {'objects': ['Wall', 'Floor', 'Exit'], 'colors': ['NONE']}, 'action_space': ['MOVE_FORWARD', 'MOVE_BACKWARD', 'MOVE_LEFT', 'MOVE_RIGHT', 'TURN_LEFT', 'TURN_RIGHT'], 'observation_space': {'objects': ['Wall', 'Floor', 'Exit'], 'colors': ['NONE']}, 'reset_function': {'name': 'empty', 'shape': [8, 8], 'random_agent': True}, 'transition_functions': [{'name': 'move_agent'}, {'name': 'turn_agent'}], 'reward_functions': [{'name': 'reach_exit', 'reward_on': 5.0, 'reward_off': 0.0}, {'name': 'getting_closer', 'distance_function': 'manhattan', 'object_type': 'Exit', 'reward_closer': 0.2, 'reward_further': -0.2}, {'name': 'living_reward', 'reward': -0.05}], 'observation_function': {'name': 'partially_occluded', 'area': [[-6, 0], [-3, 3]]}, 'terminating_function': {'name': 'reach_exit'}},
    'gv_four_rooms.7x7.yaml': {'state_space': {'objects': ['Wall', 'Floor', 'Exit'], 'colors': ['NONE']}, 'action_space': ['MOVE_FORWARD', 'MOVE_BACKWARD', 'MOVE_LEFT', 'MOVE_RIGHT', 'TURN_LEFT', 'TURN_RIGHT'], 'observation_space': {'objects': ['Wall', 'Floor', 'Exit'], 'colors': ['NONE']}, 'reset_function': {'name': 'rooms', 'shape': [7, 7], 'layout': [2, 2]}, 'transition_functions': [{'name': 'move_agent'}, {'name': 'turn_agent'}], 'reward_functions': [{'name': 'reach_exit', 'reward_on': 5.0, 'reward_off': 0.0}, {'name': 'getting_closer', 'distance_function': 'manhattan', 'object_type': 'Exit', 'reward_closer': 0.2, 'reward_further': -0.2}, {'name': 'living_reward', 'reward': -0.05}], 'observation_function': {'name': 'partially_occluded', 'area': [[-6, 0], [-3, 3]]}, 'terminating_function': {'name': 'reach_exit'}},
    'gv_four_rooms.9x9.yaml': {'state_space': {'objects': ['Wall', 'Floor', 'Exit'], 'colors': ['NONE']}, 'action_space': ['MOVE_FORWARD', 'MOVE_BACKWARD', 'MOVE_LEFT', 'MOVE_RIGHT', 'TURN_LEFT', 'TURN_RIGHT'], 'observation_space': {'objects': ['Wall', 'Floor', 'Exit'], 'colors': ['NONE']}, 'reset_function': {'name': 'rooms', 'shape': [9, 9], 'layout': [2, 2]}, 'transition_functions': [{'name': 'move_agent'}, {'name': 'turn_agent'}], 'reward_functions': [{'name': 'reach_exit', 'reward_on': 5.0, 'reward_off': 0.0}, {'name': 'getting_closer', 'distance_function': 'manhattan', 'object_type': 'Exit', 'reward_closer': 0.2, 'reward_further': -0.2}, {'name': 'living_reward', 'reward': -0.05}], 'observation_function': {'name': 'partially_occluded', 'area': [[-6, 0], [-3, 3]]}, 'terminating_function': {'name': 'reach_exit'}},
    'gv_keydoor.5x5.yaml': {'state_space': {'objects': ['Wall', 'Floor', 'Exit', 'Door', 'Key'], 'colors': ['NONE', 'YELLOW']}, 'observation_space': {'objects': ['Wall', 'Floor', 'Exit', 'Door', 'Key'], 'colors': ['NONE', 'YELLOW']}, 'reset_function': {'name': 'keydoor', 'shape': [5, 5]}, 'transition_functions': [{'name': 'move_agent'}, {'name': 'turn_agent'}, {'name': 'actuate_door'}, {'name': 'pickndrop'}], 'reward_functions': [{'name': 'reach_exit', 'reward_on': 5.0, 'reward_off': 0.0}, {'name': 'pickndrop', 'object_type': 'Key', 'reward_pick': 1.0, 'reward_drop': -1.0}, {'name': 'actuate_door', 'reward_open': 1.0, 'reward_close': -1.0}, {'name': 'getting_closer', 'distance_function': 'manhattan', 'object_type': 'Exit', 'reward_closer': 0.2, 'reward_further': -0.2}, {'name': 'living_reward', 'reward': -0.05}], 'observation_function': {'name': 'partially_occluded', 'area': [[-6, 0], [-3, 3]]}, 'terminating_function': {'name': 'reach_exit'}},
    'gv_keydoor.7x7.yaml': {'state_space': {'objects': ['Wall', 'Floor', 'Exit', 'Door', 'Key'], 'colors': ['NONE', 'YELLOW']}, 'observation_space': {'objects': ['Wall', 'Floor', 'Exit', 'Door', 'Key'], 'colors': ['NONE', 'YELLOW']}, 'reset_function': {'name': 'keydoor', 'shape': [7, 7]}, 'transition_functions': [{'name': 'move_agent'}, {'name': 'turn_agent'}, {'name': 'actuate_door'}, {'name': 'pickndrop'}], 'reward_functions': [{'name': 'reach_exit', 'reward_on': 5.0, 'reward_off': 0.0}, {'name': 'pickndrop', 'object_type': 'Key', 'reward_pick': 1.0, 'reward_drop': -1.0}, {'name': 'actuate_door', 'reward_open': 1.0, 'reward_close': -1.0}, {'name': 'getting_closer', 'distance_function': 'manhattan', 'object_type': 'Exit', 'reward_closer': 0.2, 'reward_further': -0.2}, {'name': 'living_reward', 'reward': -0.05}], 'observation_function': {'name': 'partially_occluded', 'area': [[-6, 0], [-3, 3]]}, 'terminating_function': {'name': 'reach_exit'}},
    'gv_keydoor.9x9.yaml': {'state_space': {'objects': ['Wall', 'Floor', 'Exit', 'Door', 'Key'], 'colors': ['NONE', 'YELLOW']}, 'observation_space': {'objects': ['Wall', 'Floor', 'Exit', 'Door', 'Key'], 'colors': ['NONE', 'YELLOW']}, 'reset_function': {'name': 'keydoor', 'shape': [9, 9]}, 'transition_functions': [{'name': 'move_agent'}, {'name': 'turn_agent'}, {'name': 'actuate_door'}, {'name': 'pickndrop'}], 'reward_functions': [{'name': 'reach_exit', 'reward_on': 5.0, 'reward_off': 0.0}, {'name': 'pickndrop', 'object_type': 'Key', 'reward_pick': 1.0, 'reward_drop': -1.0}, {'name': 'actuate_door', 'reward_open': 1.0, 'reward_close': -1.0}, {'name': 'getting_closer', 'distance_function': 'manhattan', 'object_type': 'Exit', 'reward_closer': 0.2, 'reward_further': -0.2}, {'name': 'living_reward', 'reward': -0.05}], 'observation_function': {'name': 'partially_occluded', 'area': [[-6, 0], [-3, 3]]}, 'terminating_function': {'name': 'reach_exit'}},
    'gv_memory.5x5.yaml': {'state_space': {'objects': ['Wall', 'Floor', 'Exit', 'Beacon'], 'colors': ['NONE', 'RED', 'GREEN', 'BLUE', 'YELLOW']}, 'action_space': ['MOVE_FORWARD', 'MOVE_BACKWARD', 'MOVE_LEFT', 'MOVE_RIGHT', 'TURN_LEFT', 'TURN_RIGHT'], 'observation_space': {'objects': ['Wall', 'Floor', 'Exit', 'Beacon'], 'colors': ['NONE', 'RED', 'GREEN', 'BLUE', 'YELLOW']}, 'reset_function': {'name': 'memory', 'shape': [5, 5], 'colors': ['RED', 'GREEN', 'BLUE', 'YELLOW']}, 'transition_functions': [{'name': 'move_agent'}, {'name': 'turn_agent'}], 'reward_functions': [{'name': 'reach_exit_memory', 'reward_good': 5.0, 'reward_bad': -5.0}, {'name': 'living_reward', 'reward': -0.05}], 'observation_function': {'name': 'partially_occluded', 'area': [[-6, 0], [-3, 3]]}, 'terminating_function': {'name': 'reach_exit'}},
    'gv_memory.9x9.yaml': {'state_space': {'objects': ['Wall', 'Floor', 'Exit', 'Beacon'], 'colors': ['NONE', 'RED', 'GREEN', 'BLUE', 'YELLOW']}, 'action_space': ['MOVE_FORWARD', 'MOVE_BACKWARD', 'MOVE_LEFT', 'MOVE_RIGHT', 'TURN_LEFT', 'TURN_RIGHT'], 'observation_space': {'objects': ['Wall', 'Floor', 'Exit', 'Beacon'], 'colors': ['NONE', 'RED', 'GREEN', 'BLUE', 'YELLOW']}, 'reset_function': {'name': 'memory', 'shape': [9, 9], 'colors': ['RED', 'GREEN', 'BLUE', 'YELLOW']}, 'transition_functions': [{'name': 'move_agent'}, {'name': 'turn_agent'}], 'reward_functions': [{'name': 'reach_exit_memory', 'reward_good': 5.0, 'reward_bad': -5.0}, {'name': 'living_reward', 'reward': -0.05}], 'observation_function': {'name': 'partially_occluded', 'area': [[-6, 0], [-3, 3]]}, 'terminating_function': {'name': 'reach_exit'}},
    'gv_memory_four_rooms.7x7.yaml': {'state_space': {'objects': ['Wall', 'Floor', 'Exit', 'Beacon'], 'colors': ['NONE', 'RED', 'GREEN', 'BLUE', 'YELLOW']}, 'action_space': ['MOVE_FORWARD', 'MOVE_BACKWARD', 'MOVE_LEFT', 'MOVE_RIGHT', 'TURN_LEFT', 'TURN_RIGHT'], 'observation_space': {'objects': ['Wall', 'Floor', 'Exit', 'Beacon'], 'colors': ['NONE', 'RED', 'GREEN', 'BLUE', 'YELLOW']}, 'reset_function': {'name': 'memory_rooms', 'shape': [7, 7], 'layout': [2, 2], 'colors': ['RED', 'GREEN', 'BLUE', 'YELLOW'], 'num_beacons': 1, 'num_exits': 2}, 'transition_functions': [{'name': 'move_agent'}, {'name': 'turn_agent'}], 'reward_functions': [{'name': 'reach_exit_memory', 'reward_good': 5.0, 'reward_bad': -5.0}, {'name': 'living_reward', 'reward': -0.05}], 'observation_function': {'name': 'partially_occluded', 'area': [[-6, 0], [-3, 3]]}, 'terminating_function': {'name': 'reach_exit'}},
    'gv_memory_four_rooms.9x9.yaml': {'state_space': {'objects': ['Wall', 'Floor', 'Exit', 'Beacon'], 'colors': ['NONE', 'RED', 'GREEN', 'BLUE', 'YELLOW']}, 'action_space': ['MOVE_FORWARD', 'MOVE_BACKWARD', 'MOVE_LEFT', 'MOVE_RIGHT', 'TURN_LEFT', 'TURN_RIGHT'], 'observation_space': {'objects': ['Wall', 'Floor', 'Exit', 'Beacon'], 'colors': ['NONE', 'RED', 'GREEN', 'BLUE', 'YELLOW']}, 'reset_function': {'name': 'memory_rooms', 'shape': [9, 9], 'layout': [2, 2], 'colors': ['RED', 'GREEN', 'BLUE', 'YELLOW'], 'num_beacons': 1, 'num_exits': 2}, 'transition_functions': [{'name': 'move_agent'}, {'name': 'turn_agent'}], 'reward_functions': [{'name': 'reach_exit_memory', 'reward_good': 5.0, 'reward_bad': -5.0}, {'name': 'living_reward', 'reward': -0.05}], 'observation_function': {'name': 'partially_occluded', 'area': [[-6, 0], [-3, 3]]}, 'terminating_function': {'name': 'reach_exit'}},
    'gv_memory_nine_rooms.10x10.yaml': {'state_space': {'objects': ['Wall', 'Floor', 'Exit', 'Beacon'], 'colors': ['NONE', 'RED', 'GREEN', 'BLUE', 'YELLOW']}, 'action_space': ['MOVE_FORWARD', 'MOVE_BACKWARD', 'MOVE_LEFT', 'MOVE_RIGHT', 'TURN_LEFT', 'TURN_RIGHT'], 'observation_space': {'objects': ['Wall', 'Floor', 'Exit', 'Beacon'], 'colors': ['NONE', 'RED', 'GREEN', 'BLUE', 'YELLOW']}, 'reset_function': {'name': 'memory_rooms', 'shape': [10, 10], 'layout': [3, 3], 'colors': ['RED', 'GREEN', 'BLUE', 'YELLOW'], 'num_beacons': 1, 'num_exits': 2}, 'transition_functions': [{'name': 'move_agent'}, {'name': 'turn_agent'}], 'reward_functions': [{'name': 'reach_exit_memory', 'reward_good': 5.0, 'reward_bad': -5.0}, {'name': 'living_reward', 'reward': -0.05}], 'observation_function': {'name': 'partially_occluded', 'area': [[-6, 0], [-3, 3]]}, 'terminating_function': {'name': 'reach_exit'}},
    'gv_memory_nine_rooms.13x13.yaml': {'state_space': {'objects': ['Wall', 'Floor', 'Exit', 'Beacon'], 'colors': ['NONE', 'RED', 'GREEN', 'BLUE', 'YELLOW']}, 'action_space': ['MOVE_FORWARD', 'MOVE_BACKWARD', 'MOVE_LEFT', 'MOVE_RIGHT', 'TURN_LEFT', 'TURN_RIGHT'], 'observation_space': {'objects': ['Wall', 'Floor', 'Exit', 'Beacon'], 'colors': ['NONE', 'RED', 'GREEN', 'BLUE', 'YELLOW']}, 'reset_function': {'name': 'memory_rooms', 'shape': [13, 13], 'layout': [3, 3], 'colors': ['RED', 'GREEN', 'BLUE', 'YELLOW'], 'num_beacons': 1, 'num_exits': 2}, 'transition_functions': [{'name': 'move_agent'}, {'name': 'turn_agent'}], 'reward_functions': [{'name': 'reach_exit_memory', 'reward_good': 5.0, 'reward_bad': -5.0}, {'name': 'living_reward', 'reward': -0.05}], 'observation_function': {'name': 'partially_occluded', 'area': [[-6, 0], [-3, 3]]}, 'terminating_function': {'name': 'reach_exit'}},
    'gv_nine_rooms.10x10.yaml': {'state_space': {'objects': ['Wall', 'Floor', 'Exit'], 'colors': ['NONE']}, 'action_space': ['MOVE_FORWARD', 'MOVE_BACKWARD', 'MOVE_LEFT', 'MOVE_RIGHT', 'TURN_LEFT', 'TURN_RIGHT'], 'observation_space': {'objects': ['Wall', 'Floor', 'Exit'], 'colors': ['NONE']}, 'reset_function': {'name': 'rooms', 'shape': [10, 10], 'layout': [3, 3]}, 'transition_functions': [{'name': 'move_agent'}, {'name': 'turn_agent'}], 'reward_functions': [{'name': 'reach_exit', 'reward_on': 5.0, 'reward_off': 0.0}, {'name': 'getting_closer', 'distance_function': 'manhattan', 'object_type': 'Exit', 'reward_closer': 0.2, 'reward_further': -0.2}, {'name': 'living_reward', 'reward': -0.05}], 'observation_function': {'name': 'partially_occluded', 'area': [[-6, 0], [-3, 3]]}, 'terminating_function': {'name': 'reach_exit'}},
    'gv_nine_rooms.13x13.yaml': {'state_space': {'objects': ['Wall', 'Floor', 'Exit'], 'colors': ['NONE']}, 'action_space': ['MOVE_FORWARD', 'MOVE_BACKWARD', 'MOVE_LEFT', 'MOVE_RIGHT', 'TURN_LEFT', 'TURN_RIGHT'], 'observation_space': {'objects': ['Wall', 'Floor', 'Exit'], 'colors': ['NONE']}, 'reset_function': {'name': 'rooms', 'shape': [13, 13], 'layout': [3, 3]}, 'transition_functions': [{'name': 'move_agent'}, {'name': 'turn_agent'}], 'reward_functions': [{'name': 'reach_exit', 'reward_on': 5.0, 'reward_off': 0.0}, {'name': 'getting_closer', 'distance_function': 'manhattan', 'object_type': 'Exit', 'reward_closer': 0.2, 'reward_further': -0.2}, {'name': 'living_reward', 'reward': -0.05}], 'observation_function': {'name': 'partially_occluded', 'area': [[-6, 0], [-3, 3]]}, 'terminating_function': {'name': 'reach_exit'}},
    'gv_teleport.5x5.yaml': {'state_space': {'objects': ['Wall', 'Floor', 'Exit', 'Telepod'], 'colors': ['NONE', 'RED']}, 'action_space': ['MOVE_FORWARD', 'MOVE_BACKWARD', 'MOVE_LEFT', 'MOVE_RIGHT', 'TURN_LEFT', 'TURN_RIGHT'], 'observation_space': {'objects': ['Wall', 'Floor', 'Exit', 'Telepod'], 'colors': ['NONE', 'RED']}, 'reset_function': {'name': 'teleport', 'shape': [5, 5], 'random_agent': True}, 'transition_functions': [{'name': 'move_agent'}, {'name': 'turn_agent'}, {'name': 'teleport'}], 'reward_functions': [{'name': 'reach_exit', 'reward_on': 5.0, 'reward_off': 0.0}, {'name': 'getting_closer', 'distance_function': 'manhattan', 'object_type': 'Exit', 'reward_closer': 0.2, 'reward_further': -0.2}, {'name': 'living_reward', 'reward': -0.05}], 'observation_function': {'name': 'partially_occluded', 'area': [[-6, 0], [-3, 3]]}, 'terminating_function': {'name': 'reach_exit'}},
    'gv_teleport.7x7.yaml': {'state_space': {'objects': ['Wall', 'Floor', 'Exit', 'Telepod'], 'colors': ['NONE', 'RED']}, 'action_space': ['MOVE_FORWARD', 'MOVE_BACKWARD', 'MOVE_LEFT', 'MOVE_RIGHT', 'TURN_LEFT', 'TURN_RIGHT'], 'observation_space': {'objects': ['Wall', 'Floor', 'Exit', 'Telepod'], 'colors': ['NONE', 'RED']}, 'reset_function': {'name': 'teleport', 'shape': [7, 7], 'random_agent': True}, 'transition_functions': [{'name': 'move_agent'}, {'name': 'turn_agent'}, {'name': 'teleport'}], 'reward_functions': [{'name': 'reach_exit', 'reward_on': 5.0, 'reward_off': 0.0}, {'name': 'getting_closer', 'distance_function': 'manhattan', 'object_type': 'Exit', 'reward_closer': 0.2, 'reward_further': -0.2}, {'name': 'living_reward', 'reward': -0.05}], 'observation_function': {'name': 'partially_occluded', 'area': [[-6, 0], [-3, 3]]}, 'terminating_function': {'name': 'reach_exit'}},
}


REPRESENTATION_NAMES = ['default', 'no-overlap', 'compact']

EXPECTED_IDS = {
    "GV-Crossing-5x5-v0": "gv_crossing.5x5.yaml",
    "GV-Crossing-7x7-v0": "gv_crossing.7x7.yaml",
    "GV-DynamicObstacles-5x5-v0": "gv_dynamic_obstacles.5x5.yaml",
    "GV-DynamicObstacles-7x7-v0": "gv_dynamic_obstacles.7x7.yaml",
    "GV-Empty-4x4-v0": "gv_empty.4x4.yaml",
    "GV-Empty-8x8-v0": "gv_empty.8x8.yaml",
    "GV-FourRooms-7x7-v0": "gv_four_rooms.7x7.yaml",
    "GV-FourRooms-9x9-v0": "gv_four_rooms.9x9.yaml",
    "GV-Keydoor-5x5-v0": "gv_keydoor.5x5.yaml",
    "GV-Keydoor-7x7-v0": "gv_keydoor.7x7.yaml",
    "GV-Keydoor-9x9-v0": "gv_keydoor.9x9.yaml",
    "GV-Memory-5x5-v0": "gv_memory.5x5.yaml",
    "GV-Memory-9x9-v0": "gv_memory.9x9.yaml",
    "GV-MemoryFourRooms-7x7-v0": "gv_memory_four_rooms.7x7.yaml",
    "GV-MemoryFourRooms-9x9-v0": "gv_memory_four_rooms.9x9.yaml",
    "GV-MemoryNineRooms-10x10-v0": "gv_memory_nine_rooms.10x10.yaml",
    "GV-MemoryNineRooms-13x13-v0": "gv_memory_nine_rooms.13x13.yaml",
    "GV-NineRooms-10x10-v0": "gv_nine_rooms.10x10.yaml",
    "GV-NineRooms-13x13-v0": "gv_nine_rooms.13x13.yaml",
    "GV-Teleport-5x5-v0": "gv_teleport.5x5.yaml",
    "GV-Teleport-7x7-v0": "gv_teleport.7x7.yaml",
}

COUNTS = {'steps': 0, 'resets': 0, 'space_checks': 0, 'stub_checks': 0}


def all_configs():
    """shipped configurations + variants with a *stochastic* observation
    function (so that the order of random draws between step/observation
    matters)"""
    configs = {name: copy.deepcopy(data) for name, data in CONFIGS.items()}
    for base in [
        'gv_keydoor.5x5.yaml',
        'gv_dynamic_obstacles.5x5.yaml',
        'gv_teleport.7x7.yaml',
    ]:
        data = copy.deepcopy(CONFIGS[base])
        data['observation_function'] = {
            'name': 'stochastic_raytracing',
            'area': [[-6, 0], [-3, 3]],
        }
        configs['stochastic+' + base] = data
    return configs


def make_inner(data) -> InnerEnv:
    return factory_env_from_data(copy.deepcopy(data))


# --------------------------------------------------------------------------
# independent re-implementations used as references
# --------------------------------------------------------------------------


def reference_gym_space(space_dict):
    """independent re-implementation of the advertised gym space"""
    boxes = {}
    for key in space_dict:
        space = space_dict[key]
        if space.space_type.name == 'CONTINUOUS':
            dtype = np.float64
        else:
            assert space.space_type.name in ('CATEGORICAL', 'DISCRETE')
            dtype = np.int64
        boxes[key] = gym.spaces.Box(
            low=np.array(space.lower_bound),
            high=np.array(space.upper_bound),
            dtype=dtype,
        )
    return gym.spaces.Dict(boxes)


def assert_space_matches(gym_space, space_dict, what):
    COUNTS['space_checks'] += 1
    reference = reference_gym_space(space_dict)
    assert isinstance(gym_space, gym.spaces.Dict), what
    assert list(gym_space.spaces.keys()) == list(reference.spaces.keys()), what
    assert set(gym_space.spaces.keys()) == set(space_dict.keys()), what
    assert gym_space == reference, what
    for key, space in space_dict.items():
        box = gym_space.spaces[key]
        assert type(box) is gym.spaces.Box, what
        expected_dtype = (
            np.dtype(np.float64)
            if space.space_type is SpaceType.CONTINUOUS
            else np.dtype(np.int64)
        )
        assert box.dtype == expected_dtype, (what, key, box.dtype)
        assert box.shape == space.lower_bound.shape, (what, key)
        assert box.low.dtype == expected_dtype, (what, key)
        assert box.high.dtype == expected_dtype, (what, key)
        np.testing.assert_array_equal(box.low, space.lower_bound)
        np.testing.assert_array_equal(box.high, space.upper_bound)


def assert_same_arrays(actual, expected, what):
    assert type(actual) is dict, (what, type(actual))
    assert list(actual.keys()) == list(expected.keys()), what
    for key in expected:
        a, e = actual[key], expected[key]
        assert isinstance(a, np.ndarray), (what, key)
        assert a.dtype == e.dtype, (what, key, a.dtype, e.dtype)
        assert a.shape == e.shape, (what, key)
        np.testing.assert_array_equal(a, e, err_msg=str((what, key)))


def assert_in_space(gym_space, value, what):
    assert gym_space.contains(value), what
    for key, box in gym_space.spaces.items():
        array = value[key]
        assert array.shape == box.shape, (what, key)
        assert np.all(array >= box.low) and np.all(array <= box.high), (
            what,
            key,
        )


class Shadow:
    """reference model of the adapter:  drives a *separate* but identically
    built and identically seeded inner environment by hand"""

    def __init__(self, data, seed, observation_name, state_name):
        self.inner = make_inner(data)
        self.inner.set_seed(seed)
        self.actions = list(self.inner.action_space.actions)
        self.set_observation_name(observation_name)
        self.set_state_name(state_name)

    def set_observation_name(self, name):
        self.observation_representation = (
            None
            if name is None
            else make_observation_representation(
                name, self.inner.observation_space
            )
        )

    def set_state_name(self, name):
        self.state_representation = (
            None
            if name is None
            else make_state_representation(name, self.inner.state_space)
        )

    def reset(self):
        self.inner.reset()

    def step(self, index):
        action = self.actions[index]
        reward, done = self.inner.step(action)
        return reward, done

    def observation(self):
        # generated lazily, at most once per state
        return self.observation_representation.convert(self.inner.observation)

    def state(self):
        return self.state_representation.convert(self.inner.state)


def action_sequences(num_actions, seed):
    rng = random.Random(seed * 7919 + num_actions)
    # every index, in order and reversed, as python ints
    yield list(range(num_actions)) + list(reversed(range(num_actions)))
    # random python ints
    yield [rng.randrange(num_actions) for _ in range(45)]
    # random numpy ints (what `action_space.sample()` produces)
    yield [np.int64(rng.randrange(num_actions)) for _ in range(30)]
    # movement-heavy sequence (indices 0..3 are movements in every shipped
    # action space), to actually reach exits / bump into things
    yield [rng.choice([0, 0, 0, 2, 3, 1, 4, 5]) for _ in range(45)]


# --------------------------------------------------------------------------
# part 1:  real environments, direct wrapping
# --------------------------------------------------------------------------


def build_gym(data, seed, observation_name, state_name):
    inner = make_inner(data)
    inner.set_seed(seed)
    kwargs = {}
    if observation_name is not None:
        kwargs['observation_representation'] = make_observation_representation(
            observation_name, inner.observation_space
        )
    if state_name is not None:
        kwargs['state_representation'] = make_state_representation(
            state_name, inner.state_space
        )
    outer = OuterEnv(inner, **kwargs)
    env = GymEnvironment(outer)
    assert env.outer_env is outer
    assert outer.inner_env is inner
    return env


def check_advertised(env: GymEnvironment, shadow: Shadow, what):
    outer = env.outer_env
    assert type(env.action_space) is gym.spaces.Discrete, what
    assert env.action_space.n == len(shadow.actions), what
    assert env.action_space.n == outer.action_space.num_actions, what
    assert outer.action_space is outer.inner_env.action_space, what
    if shadow.observation_representation is None:
        assert env.observation_space is None, what
    else:
        assert_space_matches(
            env.observation_space, shadow.observation_representation.space, what
        )
        assert_space_matches(
            env.observation_space, outer.observation_representation.space, what
        )
    if shadow.state_representation is None:
        assert env.state_space is None, what
    else:
        assert_space_matches(
            env.state_space, shadow.state_representation.space, what
        )
        assert_space_matches(
            env.state_space, outer.state_representation.space, what
        )


def run_direct(name, data, seed, env=None):
    """GymEnvironment vs shadow, switching representations on the way"""
    names = itertools.cycle(REPRESENTATION_NAMES)
    # start at a seed-dependent representation
    for _ in range(seed % 3):
        next(names)
    observation_name = next(names)
    state_name = REPRESENTATION_NAMES[(seed // 3) % 3]

    if env is None:
        env = build_gym(data, seed, observation_name, state_name)
        shadow = Shadow(data, seed, observation_name, state_name)
    else:
        # environment obtained through the registered id:  only a default
        # observation representation and no state representation
        env.outer_env.inner_env.set_seed(seed)
        observation_name, state_name = 'default', None
        names = itertools.cycle(REPRESENTATION_NAMES)
        next(names)
        shadow = Shadow(data, seed, observation_name, state_name)
        assert env.outer_env.state_representation is None
        try:
            env.state
        except RuntimeError as error:
            assert str(error) == 'State representation not available'
        else:
            raise AssertionError('state should not be available')

    what = (name, seed)
    check_advertised(env, shadow, what)
    num_actions = env.action_space.n

    for sequence_index, sequence in enumerate(
        action_sequences(num_actions, seed)
    ):
        observation = env.reset()
        shadow.reset()
        COUNTS['resets'] += 1
        expected = shadow.observation()
        assert_same_arrays(observation, expected, what)
        assert_in_space(env.observation_space, observation, what)
        # properties are views of the same (memoized) observation
        assert_same_arrays(env.observation, expected, what)
        assert_same_arrays(env.outer_env.observation, expected, what)
        if shadow.state_representation is not None:
            assert_same_arrays(env.state, shadow.state(), what)
            assert_in_space(env.state_space, env.state, what)

        for t, index in enumerate(sequence):
            result = env.step(index)
            COUNTS['steps'] += 1
            assert type(result) is tuple and len(result) == 4, what
            observation, reward, done, info = result
            expected_reward, expected_done = shadow.step(index)
            expected = shadow.observation()

            assert_same_arrays(observation, expected, (what, t))
            assert_in_space(env.observation_space, observation, (what, t))
            assert type(reward) is type(expected_reward), (what, t)
            assert reward == expected_reward, (what, t, reward, expected_reward)
            assert type(done) is type(expected_done), (what, t)
            assert done == expected_done, (what, t)
            assert type(info) is dict and info == {}, (what, t)

            if shadow.state_representation is not None:
                state = env.state
                assert_same_arrays(state, shadow.state(), (what, t))
                assert_in_space(env.state_space, state, (what, t))

            if done:
                observation = env.reset()
                shadow.reset()
                COUNTS['resets'] += 1
                assert_same_arrays(observation, shadow.observation(), (what, t))
                assert_in_space(env.observation_space, observation, (what, t))

            # switch representations mid-episode every now and then
            if t % 17 == 11:
                observation_name = next(names)
                previous = env.outer_env.observation_representation
                assert env.set_observation_representation(observation_name) is None
                shadow.set_observation_name(observation_name)
                assert env.outer_env.observation_representation is not previous
                assert type(env.outer_env.observation_representation) is type(
                    shadow.observation_representation
                )
                assert (
                    env.outer_env.observation_representation.observation_space
                    is env.outer_env.inner_env.observation_space
                )
                check_advertised(env, shadow, (what, t, observation_name))
                # the current observation is re-represented, not re-generated
                assert_same_arrays(
                    env.observation, shadow.observation(), (what, t)
                )
                assert_in_space(env.observation_space, env.observation, what)

            if t % 19 == 7:
                state_name = REPRESENTATION_NAMES[
                    (t + seed + sequence_index) % 3
                ]
                previous = env.outer_env.state_representation
                assert env.set_state_representation(state_name) is None
                shadow.set_state_name(state_name)
                assert env.outer_env.state_representation is not previous
                assert type(env.outer_env.state_representation) is type(
                    shadow.state_representation
                )
                assert (
                    env.outer_env.state_representation.state_space
                    is env.outer_env.inner_env.state_space
                )
                check_advertised(env, shadow, (what, t, state_name))
                assert_same_arrays(env.state, shadow.state(), (what, t))
                assert_in_space(env.state_space, env.state, what)

    # invalid names leave everything untouched
    for setter, attribute, space_attribute in [
        (
            env.set_observation_representation,
            'observation_representation',
            'observation_space',
        ),
        (env.set_state_representation, 'state_representation', 'state_space'),
    ]:
        previous = getattr(env.outer_env, attribute)
        previous_space = getattr(env, space_attribute)
        try:
            setter('not-a-representation')
        except ValueError as error:
            assert str(error) == 'invalid name not-a-representation'
        else:
            raise AssertionError('invalid name accepted')
        assert getattr(env.outer_env, attribute) is previous
        assert getattr(env, space_attribute) is previous_space


# --------------------------------------------------------------------------
# part 2:  real environments, state wrapper
# --------------------------------------------------------------------------


def run_wrapper(name, data, seed):
    observation_name = REPRESENTATION_NAMES[(seed + 1) % 3]
    what = (name, seed, 'wrapper')

    for state_name in REPRESENTATION_NAMES:
        env = build_gym(data, seed, observation_name, None)
        assert env.state_space is None
        # as in the documented usage:  set the representation, then wrap
        env.set_state_representation(state_name)
        shadow = Shadow(data, seed, observation_name, state_name)
        check_advertised(env, shadow, what)

        wrapper = GymStateWrapper(env)
        assert wrapper.env is env
        assert wrapper.unwrapped is env
        assert wrapper.observation_space is env.state_space
        assert wrapper.action_space is env.action_space
        assert_space_matches(
            wrapper.observation_space, shadow.state_representation.space, what
        )

        sequences = list(action_sequences(env.action_space.n, seed))
        for sequence in (sequences[0], sequences[3]):
            state = wrapper.reset()
            shadow.reset()
            COUNTS['resets'] += 1
            # the inner gym reset generates the observation of the fresh state
            expected_observation = shadow.observation()
            assert_same_arrays(state, shadow.state(), what)
            assert_in_space(wrapper.observation_space, state, what)
            assert_same_arrays(wrapper.observation, shadow.state(), what)
            assert_same_arrays(env.observation, expected_observation, what)

            for t, index in enumerate(sequence):
                result = wrapper.step(index)
                COUNTS['steps'] += 1
                assert type(result) is tuple and len(result) == 4, what
                state, reward, done, info = result
                expected_reward, expected_done = shadow.step(index)
                expected_observation = shadow.observation()
                expected_state = shadow.state()

                assert_same_arrays(state, expected_state, (what, t))
                assert_in_space(wrapper.observation_space, state, (what, t))
                assert type(reward) is type(expected_reward), (what, t)
                assert reward == expected_reward, (what, t)
                assert type(done) is type(expected_done), (what, t)
                assert done == expected_done, (what, t)
                assert type(info) is dict, (what, t)
                assert list(info.keys()) == ['observation'], (what, t)
                assert_same_arrays(
                    info['observation'], expected_observation, (what, t)
                )
                assert_in_space(
                    env.observation_space, info['observation'], (what, t)
                )

                if done:
                    state = wrapper.reset()
                    shadow.reset()
                    COUNTS['resets'] += 1
                    shadow.observation()
                    assert_same_arrays(state, shadow.state(), (what, t))


# --------------------------------------------------------------------------
# part 3:  registered ids
# --------------------------------------------------------------------------


def check_registration():
    import pkg_resources

    assert gv_gym.STRING_TO_YAML_FILE == EXPECTED_IDS
    assert list(gv_gym.STRING_TO_YAML_FILE) == list(EXPECTED_IDS)
    assert gv_gym.env_ids == list(EXPECTED_IDS)
    assert type(gv_gym.env_ids) is list
    assert set(EXPECTED_IDS.values()) == set(CONFIGS)

    registered = [
        key for key in gym.envs.registry.keys() if key.startswith('GV-')
    ]
    assert registered == list(EXPECTED_IDS), registered

    for env_id, filename in EXPECTED_IDS.items():
        spec = gym.envs.registry[env_id]
        assert spec.id == env_id
        assert spec.entry_point == 'gym_gridverse.gym:from_factory'
        assert list(spec.kwargs.keys()) == ['factory']
        factory = spec.kwargs['factory']
        assert factory.func is gv_gym.outer_env_factory
        assert factory.keywords == {}
        expected_path = pkg_resources.resource_filename(
            'gym_gridverse', f'registered_envs/{filename}'
        )
        assert factory.args == (expected_path,), factory.args
        assert os.path.isfile(expected_path)
        assert spec.max_episode_steps is None
        assert spec.reward_threshold is None

    # module-level loop variables are part of the module namespace
    last_id, last_file = list(EXPECTED_IDS.items())[-1]
    assert gv_gym.key == last_id
    assert gv_gym.yaml_filename == last_file
    assert gv_gym.yaml_filepath.endswith('registered_envs/' + last_file)
    assert gv_gym.factory is gym.envs.registry[last_id].kwargs['factory']


def run_registered():
    """`gym.make` through the registered ids.  The yaml *loader* is replaced
    (PyYAML is not installed) by one returning the transcribed data;  all the
    adapter code (factories, registration, GymEnvironment) is the library's"""
    loaded = []

    def fake_factory_env_from_yaml(path):
        loaded.append(path)
        return make_inner(CONFIGS[os.path.basename(path)])

    original = gv_gym.factory_env_from_yaml
    gv_gym.factory_env_from_yaml = fake_factory_env_from_yaml
    try:
        for env_id, filename in EXPECTED_IDS.items():
            # outer_env_factory
            del loaded[:]
            outer = gv_gym.outer_env_factory('/some/where/' + filename)
            assert loaded == ['/some/where/' + filename]
            assert type(outer) is OuterEnv
            assert outer.state_representation is None
            reference = make_observation_representation(
                'default', outer.inner_env.observation_space
            )
            assert type(outer.observation_representation) is type(reference)
            assert (
                outer.observation_representation.observation_space
                is outer.inner_env.observation_space
            )
            assert list(outer.observation_representation.space) == list(
                reference.space
            )

            # from_factory
            del loaded[:]
            calls = []

            def factory():
                calls.append(1)
                return outer

            env = gv_gym.from_factory(factory)
            assert calls == [1] and loaded == []
            assert type(env) is GymEnvironment and env.outer_env is outer

            # gym.make
            del loaded[:]
            made = gym.make(env_id, disable_env_checker=True)
            assert len(loaded) == 1 and loaded[0].endswith(
                'registered_envs/' + filename
            )
            env = made.unwrapped
            assert type(env) is GymEnvironment
            assert made.spec.id == env_id
            assert env.state_space is None
            run_direct(env_id, CONFIGS[filename], 3, env=env)
            env = gym.make(env_id, disable_env_checker=True).unwrapped
            run_direct(env_id, CONFIGS[filename], 2021, env=env)

            # through the wrappers gym.make adds
            made = gym.make(env_id, disable_env_checker=True)
            seed = 99
            made.unwrapped.outer_env.inner_env.set_seed(seed)
            shadow = Shadow(CONFIGS[filename], seed, 'default', None)
            observation = made.reset()
            shadow.reset()
            assert_same_arrays(observation, shadow.observation(), env_id)
            assert made.observation_space.contains(observation)
            for index in range(made.action_space.n):
                observation, reward, done, info = made.step(index)
                COUNTS['steps'] += 1
                expected_reward, expected_done = shadow.step(index)
                assert_same_arrays(observation, shadow.observation(), env_id)
                assert made.observation_space.contains(observation)
                assert reward == expected_reward and done == expected_done
                assert info == {}
                if done:
                    made.reset()
                    shadow.reset()
    finally:
        gv_gym.factory_env_from_yaml = original


# --------------------------------------------------------------------------
# part 4:  instrumented stubs (exact order of calls and random draws)
# --------------------------------------------------------------------------


class LoggingActionSpace(ActionSpace):
    def __init__(self, actions, log):
        super().__init__(actions)
        self.log = log

    def int_to_action(self, action):
        self.log.append(('int_to_action', action))
        return super().int_to_action(action)


class StubInner(InnerEnv):
    """scripted inner environment;  every functional call draws from the rng,
    so any reordering of calls changes all subsequent values"""

    def __init__(self, actions, log):
        super().__init__(
            'stub-state-space',
            LoggingActionSpace(actions, log),
            'stub-observation-space',
        )
        self.log = log
        self.rng = None

    def set_seed(self, seed=None):
        self.log.append(('set_seed', seed))
        self.rng = np.random.default_rng(seed)

    def functional_reset(self):
        state = ('S', 0, int(self.rng.integers(1000)))
        self.log.append(('functional_reset', state))
        return state

    def functional_step(self, state, action):
        if not self.action_space.contains(action):
            raise ValueError('bad action')
        next_state = ('S', state[1] + 1, int(self.rng.integers(1000)))
        reward = action.value + 0.25 * state[1] + next_state[2] / 1000
        done = next_state[1] % 5 == 0
        self.log.append(('functional_step', state, action, next_state))
        return next_state, reward, done

    def functional_observation(self, state):
        observation = ('O', state[1], state[2], int(self.rng.integers(1000)))
        self.log.append(('functional_observation', state, observation))
        return observation


class StubRepresentation:
    def __init__(self, kind, log, continuous=False):
        self.kind = kind
        self.log = log
        self.continuous = continuous

    @property
    def space(self):
        self.log.append(('space', self.kind))
        if self.continuous:
            return {
                'zeta': Space.make_continuous_space(
                    np.array([-1.5, 0.0, 0.0, 0.0]),
                    np.array([1000.5, 1000.0, 1000.0, 2000.0]),
                ),
                'alpha': Space.make_categorical_space(np.array([[7, 8]])),
            }
        return {
            'values': Space.make_discrete_space(
                np.array([-1, 0, 0, 0]), np.array([1000, 1000, 1000, 2000])
            )
        }

    def convert(self, obj):
        self.log.append(('convert', self.kind, obj))
        numbers = [x for x in obj[1:]] + [0] * (5 - len(obj))
        if self.continuous:
            return {
                'zeta': np.array(numbers, dtype=float),
                'alpha': np.array([[len(obj), 2]]),
            }
        return {'values': np.array(numbers)}


class StubModel:
    """independent model of what the adapter must do with the stubs"""

    def __init__(self, actions, seed):
        self.actions = list(actions)
        self.rng = np.random.default_rng(seed)
        self.state = None
        self.observation = None
        self.log = []

    def reset(self):
        self.state = ('S', 0, int(self.rng.integers(1000)))
        self.observation = None
        self.log.append(('functional_reset', self.state))

    def step(self, index, log_index=True):
        if log_index:
            self.log.append(('int_to_action', index))
        action = self.actions[index]
        state = self.state
        self.state = ('S', state[1] + 1, int(self.rng.integers(1000)))
        self.observation = None
        reward = action.value + 0.25 * state[1] + self.state[2] / 1000
        done = self.state[1] % 5 == 0
        self.log.append(('functional_step', state, action, self.state))
        return reward, done

    def observe(self):
        if self.observation is None:
            self.observation = (
                'O',
                self.state[1],
                self.state[2],
                int(self.rng.integers(1000)),
            )
            self.log.append(
                ('functional_observation', self.state, self.observation)
            )
        self.log.append(('convert', 'observation', self.observation))
        return self.observation

    def convert_state(self):
        self.log.append(('convert', 'state', self.state))
        return self.state


def numbers_of(obj):
    return [x for x in obj[1:]] + [0] * (5 - len(obj))


STUB_ACTION_LISTS = [
    list(Action),
    list(reversed(list(Action))),
    [Action.TURN_LEFT, Action.MOVE_FORWARD, Action.PICK_N_DROP],
    [Action.ACTUATE, Action.TURN_RIGHT, Action.ACTUATE, Action.MOVE_LEFT],
    (Action.MOVE_RIGHT,),
]


def run_stubs():
    for actions, seed, continuous in itertools.product(
        STUB_ACTION_LISTS, [0, 5, 12345], [False, True]
    ):
        COUNTS['stub_checks'] += 1
        log = []
        inner = StubInner(actions, log)
        inner.set_seed(seed)
        state_representation = StubRepresentation('state', log, continuous)
        observation_representation = StubRepresentation(
            'observation', log, continuous
        )
        outer = OuterEnv(
            inner,
            state_representation=state_representation,
            observation_representation=observation_representation,
        )
        assert outer.inner_env is inner
        assert outer.state_representation is state_representation
        assert outer.observation_representation is observation_representation
        assert outer.action_space is inner.action_space

        del log[:]
        env = GymEnvironment(outer)
        # spaces are computed once each, at construction
        assert sorted(log) == [('space', 'observation'), ('space', 'state')]
        del log[:]
        assert type(env.action_space) is gym.spaces.Discrete
        assert env.action_space.n == len(actions)
        log_ = []
        assert_space_matches(
            env.state_space,
            StubRepresentation('state', log_, continuous).space,
            'stub',
        )
        assert_space_matches(
            env.observation_space,
            StubRepresentation('observation', log_, continuous).space,
            'stub',
        )
        if continuous:
            assert env.observation_space['zeta'].dtype == np.float64
            assert env.observation_space['alpha'].dtype == np.int64
            assert list(env.observation_space.spaces) == ['alpha', 'zeta']
        assert log == []

        model = StubModel(actions, seed)

        def expected_arrays(obj):
            if continuous:
                return {
                    'zeta': np.array(numbers_of(obj), dtype=float),
                    'alpha': np.array([[len(obj), 2]]),
                }
            return {'values': np.array(numbers_of(obj))}

        # before reset:  the inner environment complains
        for access in (
            lambda: env.observation,
            lambda: env.state,
            lambda: env.step(0),
        ):
            try:
                access()
            except RuntimeError as error:
                assert 'was the environment reset?' in str(error)
            else:
                raise AssertionError('expected failure before reset')
        assert [entry for entry in log if entry[0] != 'int_to_action'] == []
        del log[:]

        # --- plain GymEnvironment
        observation = env.reset()
        model.reset()
        assert_same_arrays(observation, expected_arrays(model.observe()), 's')
        assert env.observation_space.contains(observation)
        assert log == model.log, (log, model.log)

        rng = random.Random(seed)
        n = len(actions)
        indices = list(range(n)) + [rng.randrange(n) for _ in range(25)]
        indices += [-1, np.int64(n - 1), -n]
        infos = []
        for index in indices:
            observation, reward, done, info = env.step(index)
            expected_reward, expected_done = model.step(index)
            assert_same_arrays(
                observation, expected_arrays(model.observe()), 's'
            )
            assert env.observation_space.contains(observation)
            assert reward == expected_reward and type(reward) is float
            assert done == expected_done and type(done) is bool
            assert type(info) is dict and info == {}
            assert all(info is not other for other in infos)
            infos.append(info)
            assert log == model.log, (log[-6:], model.log[-6:])
            if rng.random() < 0.3:
                # repeated reads do not re-generate the observation
                assert_same_arrays(
                    env.observation, expected_arrays(model.observe()), 's'
                )
                assert_same_arrays(
                    env.state, expected_arrays(model.convert_state()), 's'
                )
                assert env.state_space.contains(env.state)
                model.convert_state()
                assert log == model.log
            if done:
                observation = env.reset()
                model.reset()
                assert_same_arrays(
                    observation, expected_arrays(model.observe()), 's'
                )
                assert log == model.log

        # out of range indices fail exactly like the action sequence does
        for bad in (n, n + 3, -n - 1):
            before = list(log)
            try:
                env.step(bad)
            except IndexError:
                pass
            else:
                raise AssertionError('expected IndexError')
            assert log == before + [('int_to_action', bad)]
            model.log.append(('int_to_action', bad))

        # --- state wrapper, with a spy in between to check info identity
        class Spy(gym.Wrapper):
            last = None

            def step(self, action):
                self.last = self.env.step(action)
                return self.last

        for use_spy in (False, True):
            wrapped = Spy(env) if use_spy else env
            wrapper = GymStateWrapper(wrapped)
            assert wrapper.observation_space is env.state_space
            assert wrapper.action_space is env.action_space
            assert log == model.log

            state = wrapper.reset()
            model.reset()
            model.observe()
            assert_same_arrays(
                state, expected_arrays(model.convert_state()), 'w'
            )
            assert wrapper.observation_space.contains(state)
            assert log == model.log, (log[-6:], model.log[-6:])

            for index in indices:
                result = wrapper.step(index)
                assert type(result) is tuple and len(result) == 4
                state, reward, done, info = result
                expected_reward, expected_done = model.step(index)
                expected_observation = expected_arrays(model.observe())
                expected_state = expected_arrays(model.convert_state())
                assert_same_arrays(state, expected_state, 'w')
                assert wrapper.observation_space.contains(state)
                assert reward == expected_reward and type(reward) is float
                assert done == expected_done and type(done) is bool
                assert type(info) is dict
                assert list(info) == ['observation']
                assert_same_arrays(
                    info['observation'], expected_observation, 'w'
                )
                assert env.observation_space.contains(info['observation'])
                if use_spy:
                    # the info dictionary of the wrapped env is passed on
                    assert info is wrapped.last[3]
                    assert info['observation'] is wrapped.last[0]
                assert log == model.log, (log[-6:], model.log[-6:])
                if done:
                    wrapper.reset()
                    model.reset()
                    model.observe()
                    model.convert_state()
                    assert log == model.log

        # --- missing representations
        for missing in ('state', 'observation', 'both'):
            log2 = []
            inner2 = StubInner(actions, log2)
            inner2.set_seed(seed)
            kwargs = {}
            if missing not in ('state', 'both'):
                kwargs['state_representation'] = StubRepresentation(
                    'state', log2, continuous
                )
            if missing not in ('observation', 'both'):
                kwargs['observation_representation'] = StubRepresentation(
                    'observation', log2, continuous
                )
            outer2 = OuterEnv(inner2, **kwargs)
            env2 = GymEnvironment(outer2)
            model2 = StubModel(actions, seed)
            model2.log.append(('set_seed', seed))
            model2.log.extend(
                ('space', kind)
                for kind in ('state', 'observation')
                if kind != missing and missing != 'both'
            )
            assert sorted(log2) == sorted(model2.log)
            model2.log = list(log2)

            has_state = missing == 'observation'
            has_observation = missing == 'state'
            assert (env2.state_space is None) == (not has_state)
            assert (env2.observation_space is None) == (not has_observation)

            def expect_unavailable(access, kind):
                try:
                    access()
                except RuntimeError as error:
                    assert str(error) == f'{kind} representation not available'
                else:
                    raise AssertionError('expected RuntimeError')

            # the representation check comes first, even before reset, and
            # never touches the inner environment
            if not has_state:
                expect_unavailable(lambda: outer2.state, 'State')
                expect_unavailable(lambda: env2.state, 'State')
            if not has_observation:
                expect_unavailable(lambda: outer2.observation, 'Observation')
                expect_unavailable(lambda: env2.observation, 'Observation')
            assert log2 == model2.log

            if has_observation:
                observation = env2.reset()
                model2.reset()
                assert_same_arrays(
                    observation, expected_arrays(model2.observe()), 'm'
                )
            else:
                # the reset happens, then the observation is unavailable
                expect_unavailable(env2.reset, 'Observation')
                model2.reset()
            assert log2 == model2.log

            for index in range(n):
                if has_observation:
                    observation, reward, done, info = env2.step(index)
                    expected_reward, expected_done = model2.step(index)
                    assert_same_arrays(
                        observation, expected_arrays(model2.observe()), 'm'
                    )
                    assert (reward, done, info) == (
                        expected_reward,
                        expected_done,
                        {},
                    )
                else:
                    # the step happens, no observation is generated
                    expect_unavailable(lambda: env2.step(index), 'Observation')
                    model2.step(index)
                if has_state:
                    assert_same_arrays(
                        env2.state,
                        expected_arrays(model2.convert_state()),
                        'm',
                    )
                else:
                    expect_unavailable(lambda: env2.state, 'State')
                assert log2 == model2.log, (log2[-5:], model2.log[-5:])

            # OuterEnv on its own (takes an Action, no index conversion)
            assert outer2.reset() is None
            model2.reset()
            for action_index, action in enumerate(actions):
                result = outer2.step(action)
                expected = model2.step(action_index, log_index=False)
                assert type(result) is tuple and result == expected
                assert log2 == model2.log, (log2[-5:], model2.log[-5:])


# --------------------------------------------------------------------------
# part 5:  outer_space_to_gym_space on hand-made spaces
# --------------------------------------------------------------------------


def run_space_conversion():
    rng = np.random.default_rng(2024)
    for trial in range(60):
        space_dict = {}
        keys = ['k%d' % i for i in rng.permutation(6)[: rng.integers(0, 6)]]
        for key in keys:
            shape = tuple(rng.integers(1, 4, size=rng.integers(1, 4)))
            kind = rng.integers(3)
            if kind == 0:
                space = Space.make_categorical_space(
                    rng.integers(0, 10, size=shape)
                )
            elif kind == 1:
                low = rng.integers(-10, 10, size=shape)
                space = Space.make_discrete_space(
                    low, low + rng.integers(0, 5, size=shape)
                )
            else:
                low = rng.normal(size=shape) * 10
                space = Space.make_continuous_space(
                    low, low + rng.random(size=shape) * 5
                )
            space_dict[key] = space

        gym_space = outer_space_to_gym_space(space_dict)
        assert_space_matches(gym_space, space_dict, ('hand-made', trial))
        # a fresh object every time, sharing no bound arrays with the input
        other = outer_space_to_gym_space(space_dict)
        assert other is not gym_space and other == gym_space
        for key, space in space_dict.items():
            assert gym_space[key] is not other[key]
            assert gym_space[key].contains(
                space.lower_bound
            ) and gym_space[key].contains(space.upper_bound)


def main():
    check_registration()
    run_space_conversion()
    run_stubs()
    configs = all_configs()
    for name, data in configs.items():
        for seed in (0, 4, 1337):
            run_direct(name, data, seed)
        run_wrapper(name, data, 8)
    run_registered()
    print('OK', COUNTS)


if __name__ == '__main__':
    main()
