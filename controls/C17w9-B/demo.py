"""C17 demo (change B): configurations build exactly the environment they
describe, or are rejected.

Runs from the worktree root (`/venv/bin/python _seed/B/demo.py`), exits 0 on the
pristine tree and with `_seed/B/patch.diff` applied.  PyYAML is not needed: the
shipped YAML files are read with the small parser below (they only use block
mappings, block sequences, flow sequences and plain scalars), and the resulting
plain dicts are given to `factory_env_from_data`.

What is compared against what
-----------------------------
* `ref_*` below is an embedded reference implementation of "assemble by hand
  from the named components with the given parameters, ignoring parameters a
  component does not accept".  It only uses the registries, `inspect` and
  `functools.partial`; it does not call anything in
  `gym_gridverse.envs.yaml.factory` nor any component `factory()`.
* the environment built by `factory_env_from_data` must (1) have structurally
  the same components (same registered function, same bound keywords,
  recursively) and (2) behave identically over seeds x action sequences.
"""
import copy
import functools
import importlib
import inspect
import math
import os
import random
import sys
import warnings

ROOT = os.path.dirname(
    os.path.dirname(os.path.dirname(os.path.abspath(__file__)))
)
sys.path.insert(0, ROOT)
sys.path.insert(1, os.path.join(ROOT, 'examples'))  # coin_env.yaml -> coin_env
os.chdir(ROOT)
warnings.filterwarnings('ignore')

from schema import SchemaError  # noqa: E402

from gym_gridverse.action import Action  # noqa: E402
from gym_gridverse.envs import (  # noqa: E402
    observation_functions as observation_fs,
    reset_functions as reset_fs,
    reward_functions as reward_fs,
    terminating_functions as terminating_fs,
    transition_functions as transition_fs,
    visibility_functions as visibility_fs,
)
from gym_gridverse.envs.gridworld import GridWorld  # noqa: E402
from gym_gridverse.envs.yaml import factory as yf  # noqa: E402
from gym_gridverse.geometry import Area, Position, Shape  # noqa: E402
from gym_gridverse.grid_object import (  # noqa: E402
    Color,
    Exit,
    Key,
    Wall,
    grid_object_registry,
)
from gym_gridverse.spaces import (  # noqa: E402
    ActionSpace,
    ObservationSpace,
    StateSpace,
)

CHECKS = 0


def check(condition, message):
    global CHECKS
    CHECKS += 1
    if not condition:
        raise AssertionError(message)


# --------------------------------------------------------------------------
# a tiny YAML reader, sufficient for the shipped configuration files
# --------------------------------------------------------------------------


def _scalar(text):
    text = text.strip()
    if text.startswith('['):
        value, rest = _flow(text)
        assert not rest.strip(), text
        return value
    if text in ('true', 'True', 'TRUE'):
        return True
    if text in ('false', 'False', 'FALSE'):
        return False
    if text in ('', '~', 'null', 'Null', 'NULL'):
        return None
    try:
        return int(text)
    except ValueError:
        pass
    try:
        return float(text)
    except ValueError:
        pass
    if len(text) >= 2 and text[0] == text[-1] and text[0] in '\'"':
        return text[1:-1]
    return text


def _flow(text):
    """parses a flow sequence at the start of text, returns (list, rest)"""
    assert text[0] == '['
    items, text = [], text[1:].lstrip()
    while not text.startswith(']'):
        if text.startswith('['):
            item, text = _flow(text)
        else:
            n = min(i for i in (text.find(','), text.find(']')) if i >= 0)
            item, text = _scalar(text[:n]), text[n:]
        items.append(item)
        text = text.lstrip()
        if text.startswith(','):
            text = text[1:].lstrip()
    return items, text[1:]


def _split_key(text):
    """`key: value` or `key:`;  a colon not followed by a space is no split"""
    if text.endswith(':') and ': ' not in text:
        return text[:-1], ''
    n = text.find(': ')
    if n < 0:
        return None
    return text[:n], text[n + 2 :].strip()


def _yaml_lines(text):
    lines = []
    for line in text.splitlines():
        n = line.find('#')
        if n >= 0 and (n == 0 or line[n - 1].isspace()):
            line = line[:n]
        if line.strip():
            stripped = line.lstrip(' ')
            lines.append([len(line) - len(stripped), stripped.rstrip()])
    return lines


def _block(lines, i, indent):
    if lines[i][1].startswith('- ') or lines[i][1] == '-':
        return _sequence(lines, i, indent)
    return _mapping(lines, i, indent)


def _sequence(lines, i, indent):
    items = []
    while i < len(lines) and lines[i][0] == indent and lines[i][1][:1] == '-':
        text = lines[i][1][1:]
        item = text.lstrip(' ')
        item_indent = indent + 1 + len(text) - len(item)
        if _split_key(item) is not None and not item.startswith('['):
            lines[i] = [item_indent, item]
            value, i = _mapping(lines, i, item_indent)
        else:
            value, i = _scalar(item), i + 1
        items.append(value)
    return items, i


def _mapping(lines, i, indent):
    mapping = {}
    while i < len(lines) and lines[i][0] == indent and lines[i][1][:2] != '- ':
        key, rest = _split_key(lines[i][1])
        assert key not in mapping, key
        i += 1
        if rest:
            mapping[key] = _scalar(rest)
        elif i < len(lines) and lines[i][0] > indent:
            mapping[key], i = _block(lines, i, lines[i][0])
        elif i < len(lines) and lines[i][0] == indent and lines[i][1][:2] == '- ':
            mapping[key], i = _sequence(lines, i, indent)
        else:
            mapping[key] = None
    return mapping, i


def yaml_load(text):
    lines = _yaml_lines(text)
    value, i = _block(lines, 0, lines[0][0])
    assert i == len(lines), (i, len(lines))
    return value


KEYDOOR_5X5 = {
    'state_space': {
        'objects': ['Wall', 'Floor', 'Exit', 'Door', 'Key'],
        'colors': ['NONE', 'YELLOW'],
    },
    'observation_space': {
        'objects': ['Wall', 'Floor', 'Exit', 'Door', 'Key'],
        'colors': ['NONE', 'YELLOW'],
    },
    'reset_function': {'name': 'keydoor', 'shape': [5, 5]},
    'transition_functions': [
        {'name': 'move_agent'},
        {'name': 'turn_agent'},
        {'name': 'actuate_door'},
        {'name': 'pickndrop'},
    ],
    'reward_functions': [
        {'name': 'reach_exit', 'reward_on': 5.0, 'reward_off': 0.0},
        {
            'name': 'pickndrop',
            'object_type': 'Key',
            'reward_pick': 1.0,
            'reward_drop': -1.0,
        },
        {'name': 'actuate_door', 'reward_open': 1.0, 'reward_close': -1.0},
        {
            'name': 'getting_closer',
            'distance_function': 'manhattan',
            'object_type': 'Exit',
            'reward_closer': 0.2,
            'reward_further': -0.2,
        },
        {'name': 'living_reward', 'reward': -0.05},
    ],
    'observation_function': {
        'name': 'partially_occluded',
        'area': [[-6, 0], [-3, 3]],
    },
    'terminating_function': {'name': 'reach_exit'},
}


# --------------------------------------------------------------------------
# reference: assemble by hand from the registries
# --------------------------------------------------------------------------

REGISTRIES = {
    # kind: (registry, number of leading protocol positional parameters)
    'reset': (reset_fs.reset_function_registry, 0),
    'transition': (transition_fs.transition_function_registry, 2),
    'reward': (reward_fs.reward_function_registry, 3),
    'observation': (observation_fs.observation_function_registry, 1),
    'visibility': (visibility_fs.visibility_function_registry, 2),
    'terminating': (terminating_fs.terminating_function_registry, 3),
}
COMPONENT_FACTORIES = {
    'reset': reset_fs.factory,
    'transition': transition_fs.factory,
    'reward': reward_fs.factory,
    'observation': observation_fs.factory,
    'visibility': visibility_fs.factory,
    'terminating': terminating_fs.factory,
}
YAML_FACTORIES = {
    'reset': yf.factory_reset_function,
    'transition': yf.factory_transition_function,
    'reward': yf.factory_reward_function,
    'observation': yf.factory_observation_function,
    'visibility': yf.factory_visibility_function,
    'terminating': yf.factory_terminating_function,
}


def ref_name(name):
    if ':' in name:
        module_name, name = name.split(':')
        importlib.import_module(module_name)
    return name


def ref_object_type(name):
    (object_type,) = [
        object_type
        for object_type in grid_object_registry
        if object_type.__name__ == name
    ][:1]
    return object_type


def ref_value(key, value):
    """the meaning of the reserved parameter names of the configuration layer"""
    if key == 'transition_functions':
        return [ref_component('transition', d) for d in value]
    if key == 'reward_functions':
        return [ref_component('reward', d) for d in value]
    if key == 'terminating_functions':
        return [ref_component('terminating', d) for d in value]
    if key == 'reward_function':
        return ref_component('reward', value)
    if key == 'visibility_function':
        return ref_component('visibility', value)
    if key == 'distance_function':
        return {
            'manhattan': Position.manhattan_distance,
            'euclidean': Position.euclidean_distance,
        }[value]
    if key == 'shape':
        return Shape(*value)
    if key == 'layout':
        return tuple(value)
    if key == 'area':
        return Area(*value)
    if key == 'object_type':
        return ref_object_type(value)
    if key == 'colors':
        return {Color[name] for name in value}
    return value


def ref_accepted(kind, function):
    """(required, optional) non-protocol parameter names, in signature order"""
    _, num_positional = REGISTRIES[kind]
    parameters = list(inspect.signature(function).parameters.values())
    parameters = [p for p in parameters[num_positional:] if p.name != 'rng']
    required = [p.name for p in parameters if p.default is p.empty]
    optional = [p.name for p in parameters if p.default is not p.empty]
    return required, optional


def ref_partial(kind, name, kwargs):
    registry, _ = REGISTRIES[kind]
    function = registry[ref_name(name)]
    required, optional = ref_accepted(kind, function)
    missing = [key for key in required if key not in kwargs]
    if missing:
        raise ValueError(missing)
    kwargs = {k: v for k, v in kwargs.items() if k in required + optional}
    return functools.partial(function, **kwargs)


def ref_component(kind, spec):
    spec = dict(spec)
    name = spec.pop('name')
    kwargs = {key: ref_value(key, value) for key, value in spec.items()}
    return ref_partial(kind, name, kwargs)


def ref_env(data):
    object_types = lambda names: [  # noqa: E731
        ref_object_type(ref_name(name)) for name in names
    ]
    colors = lambda names: [Color[name] for name in names]  # noqa: E731

    reset = ref_component('reset', data['reset_function'])
    transition = functools.partial(
        transition_fs.transition_function_registry['chain'],
        transition_functions=[
            ref_component('transition', d) for d in data['transition_functions']
        ],
    )
    reward = functools.partial(
        reward_fs.reward_function_registry['reduce_sum'],
        reward_functions=[
            ref_component('reward', d) for d in data['reward_functions']
        ],
    )
    observation = ref_component('observation', data['observation_function'])
    terminating = ref_component('terminating', data['terminating_function'])

    state = reset()
    state_space = StateSpace(
        state.grid.shape,
        object_types(data['state_space']['objects']),
        colors(data['state_space']['colors']),
    )
    observation_space = ObservationSpace(
        observation(state).grid.shape,
        object_types(data['observation_space']['objects']),
        colors(data['observation_space']['colors']),
    )
    action_space = ActionSpace(
        [Action[name] for name in data['action_space']]
        if 'action_space' in data
        else list(Action)
    )
    return GridWorld(
        state_space,
        action_space,
        observation_space,
        reset,
        transition,
        observation,
        reward,
        terminating,
    )


# --------------------------------------------------------------------------
# comparisons
# --------------------------------------------------------------------------


def same_value(a, b):
    """structural equality of bound components / parameters"""
    if isinstance(a, functools.partial) or isinstance(b, functools.partial):
        return (
            isinstance(a, functools.partial)
            and isinstance(b, functools.partial)
            and a.func is b.func
            and a.args == b.args == ()
            and set(a.keywords) == set(b.keywords)  # keyword order is moot
            and all(same_value(a.keywords[k], b.keywords[k]) for k in a.keywords)
        )
    if isinstance(a, (list, tuple)) and not hasattr(a, '_fields'):
        return (
            type(a) is type(b)
            and len(a) == len(b)
            and all(same_value(x, y) for x, y in zip(a, b))
        )
    return type(a) is type(b) and a == b


COMPONENT_ATTRIBUTES = [
    '_reset_function',
    '_transition_function',
    '_observation_function',
    '_reward_function',
    '_termination_function',
]


def same_structure(env_a, env_b, label):
    for attribute in COMPONENT_ATTRIBUTES:
        check(
            same_value(getattr(env_a, attribute), getattr(env_b, attribute)),
            f'{label}: {attribute} differs',
        )
    for space in ['state_space', 'observation_space']:
        space_a, space_b = getattr(env_a, space), getattr(env_b, space)
        check(type(space_a) is type(space_b), f'{label}: {space} type')
        check(space_a.grid_shape == space_b.grid_shape, f'{label}: {space}')
        check(space_a.object_types == space_b.object_types, f'{label}: {space}')
        check(space_a.colors == space_b.colors, f'{label}: {space} colors')
    check(
        list(env_a.action_space.actions) == list(env_b.action_space.actions),
        f'{label}: action_space',
    )


def same_reward(a, b):
    return a == b or (math.isnan(a) and math.isnan(b))


def same_behaviour(env_a, env_b, label, seeds=(0, 1, 12345), steps=40):
    actions = list(env_a.action_space.actions)
    for seed in seeds:
        for repeat in range(2):  # re-seeding restarts the same trajectory
            env_a.set_seed(seed)
            env_b.set_seed(seed)
            env_a.reset()
            env_b.reset()
            action_rng = random.Random(1000 * seed + 7)
            for t in range(steps):
                where = f'{label}: seed {seed} repeat {repeat} t {t}'
                check(env_a.state == env_b.state, f'{where} state')
                check(
                    env_a.observation == env_b.observation,
                    f'{where} observation',
                )
                check(
                    env_a.state_space.contains(env_a.state)
                    and env_a.observation_space.contains(env_a.observation),
                    f'{where} spaces do not contain state/observation',
                )
                action = action_rng.choice(actions)
                reward_a, done_a = env_a.step(action)
                reward_b, done_b = env_b.step(action)
                check(same_reward(reward_a, reward_b), f'{where} reward')
                check(done_a == done_b, f'{where} done')
                if done_a:
                    env_a.reset()
                    env_b.reset()


def rejected(function, *args, exceptions=(SchemaError, ValueError), **kwargs):
    try:
        function(*args, **kwargs)
    except exceptions:
        return True
    except Exception as error:  # pylint: disable=broad-except
        raise AssertionError(
            f'{function.__name__}{args}: wrong rejection {error!r}'
        )
    return False


# --------------------------------------------------------------------------
# 1. shipped configurations
# --------------------------------------------------------------------------


def shipped_configurations():
    from gym_gridverse.gym import STRING_TO_YAML_FILE

    source = sorted(f for f in os.listdir('yaml') if f.endswith('.yaml'))
    packaged_dir = os.path.join('gym_gridverse', 'registered_envs')
    packaged = sorted(f for f in os.listdir(packaged_dir) if f.endswith('.yaml'))
    check(source == packaged, 'yaml/ and registered_envs/ list different files')
    check(
        sorted(STRING_TO_YAML_FILE.values()) == packaged,
        'registered gym ids do not cover the packaged files',
    )

    paths = []
    for filename in source:
        with open(os.path.join('yaml', filename), 'rb') as f:
            a = f.read()
        with open(os.path.join(packaged_dir, filename), 'rb') as f:
            b = f.read()
        check(a == b, f'packaged copy of {filename} differs')
        paths.append(os.path.join('yaml', filename))
    paths.extend(
        os.path.join('examples', f)
        for f in sorted(os.listdir('examples'))
        if f.endswith('.yaml')
    )
    return paths


def check_shipped():
    with open(os.path.join('yaml', 'gv_keydoor.5x5.yaml')) as f:
        check(yaml_load(f.read()) == KEYDOOR_5X5, 'yaml reader self-check')

    datas = {}
    for path in shipped_configurations():
        with open(path) as f:
            data = yaml_load(f.read())
        datas[path] = data
        pristine = copy.deepcopy(data)

        yf.schemas['env'].validate(data)
        env_1 = yf.factory_env_from_data(data)
        check(data == pristine, f'{path}: input data changed by the build')
        env_2 = yf.factory_env_from_data(data)
        check(data == pristine, f'{path}: input data changed by 2nd build')
        env_ref = ref_env(data)
        check(data == pristine, f'{path}: reference changed the data')

        check(isinstance(env_1, GridWorld), f'{path}: not a GridWorld')
        same_structure(env_1, env_ref, path)
        same_structure(env_2, env_ref, path + ' (2nd build)')
        same_behaviour(env_1, env_ref, path)
        # several environments in one process, interleaved
        same_behaviour(env_2, env_1, path + ' (repeat)', seeds=(3,), steps=25)
    return datas


# --------------------------------------------------------------------------
# 2. hand-written configurations exercising every reserved parameter name,
#    nesting, non-square shapes, asymmetric areas, colour NONE, ignored keys
# --------------------------------------------------------------------------


def awkward_configurations():
    spaces = {
        'state_space': {
            'objects': ['Wall', 'Floor', 'Exit', 'MovingObstacle', 'Beacon'],
            'colors': ['NONE', 'RED', 'GREEN', 'BLUE', 'YELLOW'],
        },
        'observation_space': {
            'objects': ['Wall', 'Floor', 'Exit', 'MovingObstacle', 'Beacon'],
            'colors': ['NONE', 'RED', 'GREEN', 'BLUE', 'YELLOW'],
        },
    }
    yield 'non-square empty, nested reductions, raytracing', dict(
        spaces,
        action_space=['TURN_RIGHT', 'MOVE_FORWARD', 'MOVE_LEFT', 'ACTUATE'],
        reset_function={
            'name': 'empty',
            'shape': [4, 9],
            'random_agent': True,
            'random_exit': True,
            'not_a_parameter': [1, 2, 3],  # ignored
        },
        transition_functions=[
            {'name': 'move_agent'},
            {'name': 'turn_agent', 'ignored': {'name': 'x'}},
            {
                'name': 'chain',
                'transition_functions': [
                    {'name': 'chain', 'transition_functions': [{'name': 'turn_agent'}]},
                ],
            },
        ],
        reward_functions=[
            {
                'name': 'reduce_sum',
                'reward_functions': [
                    {'name': 'living_reward', 'reward': -1.5},
                    {
                        'name': 'proportional_to_distance',
                        'distance_function': 'euclidean',
                        'object_type': 'Exit',
                        'reward_per_unit_distance': -0.25,
                    },
                ],
            },
            {
                'name': 'getting_closer',
                'object_type': 'Exit',
                'reward_closer': 2.0,
                'reward_further': -3.0,
            },
            {'name': 'bump_into_wall', 'reward': -7.0},
            {'name': 'reach_exit'},  # all defaults
        ],
        observation_function={
            'name': 'from_visibility',
            'area': [[-2, 1], [-1, 3]],  # asymmetric, agent not on the border
            'visibility_function': {'name': 'raytracing', 'absent': None},
        },
        terminating_function={
            'name': 'reduce_any',
            'terminating_functions': [
                {'name': 'reach_exit'},
                {
                    'name': 'reduce_all',
                    'terminating_functions': [
                        {'name': 'bump_into_wall'},
                        {'name': 'bump_into_wall'},
                    ],
                },
            ],
        },
    )
    yield 'rooms with layout, stochastic visibility, default actions', dict(
        spaces,
        reset_function={'name': 'rooms', 'shape': [7, 10], 'layout': [2, 3]},
        transition_functions=[{'name': 'move_agent'}, {'name': 'turn_agent'}],
        reward_functions=[{'name': 'living_reward'}],
        observation_function={
            'name': 'from_visibility',
            'area': [[-4, 0], [-2, 2]],
            'visibility_function': {'name': 'stochastic_raytracing'},
        },
        terminating_function={'name': 'reach_exit'},
    )
    yield 'memory rooms with colours, 1x1-ish view', dict(
        spaces,
        reset_function={
            'name': 'memory_rooms',
            'shape': [9, 13],
            'layout': [2, 3],
            'colors': ['RED', 'BLUE'],
            'num_beacons': 1,
            'num_exits': 2,
        },
        transition_functions=[{'name': 'move_agent'}, {'name': 'turn_agent'}],
        reward_functions=[
            {'name': 'reach_exit_memory', 'reward_good': 3.0, 'reward_bad': -4.0}
        ],
        observation_function={'name': 'fully_transparent', 'area': [[0, 0], [0, 0]]},
        terminating_function={'name': 'reach_exit'},
    )
    yield 'dynamic obstacles, partially occluded wide view', dict(
        spaces,
        reset_function={
            'name': 'dynamic_obstacles',
            'shape': [6, 8],
            'num_obstacles': 3,
            'random_agent_pos': True,
        },
        transition_functions=[
            {'name': 'move_obstacles'},
            {'name': 'move_agent'},
            {'name': 'turn_agent'},
        ],
        reward_functions=[
            {'name': 'bump_moving_obstacle', 'reward': -2.0},
            {'name': 'getting_closer', 'object_type': 'Exit',
             'distance_function': 'manhattan'},
        ],
        observation_function={'name': 'partially_occluded', 'area': [[-3, 0], [-4, 2]]},
        terminating_function={
            'name': 'reduce_any',
            'terminating_functions': [
                {'name': 'reach_exit'},
                {'name': 'bump_moving_obstacle'},
            ],
        },
    )


def check_awkward():
    for label, data in awkward_configurations():
        pristine = copy.deepcopy(data)
        env = yf.factory_env_from_data(data)
        check(data == pristine, f'{label}: input data changed by the build')
        env_ref = ref_env(data)
        same_structure(env, env_ref, label)
        same_behaviour(env, env_ref, label, seeds=(0, 5), steps=30)


# --------------------------------------------------------------------------
# 3. every registered component, by name with parameters
# --------------------------------------------------------------------------

# raw (configuration) values for every non-protocol parameter name in use
RAW_PARAMETERS = {
    'shape': [6, 9],
    'layout': [2, 2],
    'colors': ['RED', 'NONE', 'YELLOW'],
    'object_type': 'Wall',
    'distance_function': 'euclidean',
    'area': [[-3, 1], [-1, 2]],
    'visibility_function': {'name': 'partially_occluded'},
    'reward_function': {'name': 'living_reward', 'reward': 4.5},
    'reward_functions': [{'name': 'living_reward'}, {'name': 'reach_exit'}],
    'transition_functions': [{'name': 'turn_agent'}],
    'terminating_functions': [{'name': 'reach_exit'}],
}


def raw_parameter(name, n):
    if name in RAW_PARAMETERS:
        return copy.deepcopy(RAW_PARAMETERS[name])
    if name.startswith(('random_', 'reset_')):
        return bool(n % 2)
    if name.startswith('num_'):
        return 1 + n % 2
    if name == 'reduction':
        return None  # not expressible in a configuration
    return 0.5 * (n + 1)  # rewards, probabilities, ...


def check_components():
    count = 0
    for kind, (registry, _) in REGISTRIES.items():
        for name, function in sorted(registry.items()):
            required, optional = ref_accepted(kind, function)
            accepted = required + optional
            variants = [
                accepted,  # everything
                required,  # only what is needed
                required + optional[::2],  # some optionals
                list(reversed(accepted)),  # another order
            ]
            for n, keys in enumerate(variants):
                raw = {key: raw_parameter(key, n + i) for i, key in enumerate(keys)}
                raw['definitely_not_a_parameter'] = n
                raw['rng_'] = 'ignored too'
                spec = dict(raw, name=name)
                pristine = copy.deepcopy(spec)

                expected = ref_component(kind, spec)
                built = YAML_FACTORIES[kind](spec)
                check(spec == pristine, f'{kind} {name}: spec changed')
                check(
                    same_value(built, expected),
                    f'{kind} {name} {keys}: configuration layer differs',
                )
                check(built.func is function, f'{kind} {name}: wrong function')
                check(
                    set(built.keywords) == {k for k in raw if k in accepted},
                    f'{kind} {name}: wrong keyword selection',
                )

                # component factory by name with (already converted) parameters
                kwargs = {k: ref_value(k, v) for k, v in raw.items()}
                direct = COMPONENT_FACTORIES[kind](name, **kwargs)
                check(
                    same_value(direct, ref_partial(kind, name, kwargs)),
                    f'{kind} {name} {keys}: component factory differs',
                )
                check(
                    all(direct.keywords[k] is kwargs[k] for k in direct.keywords),
                    f'{kind} {name}: parameters not passed through as given',
                )
                count += 1

            # each missing required parameter is rejected (ValueError)
            for key in required:
                raw = {k: raw_parameter(k, 0) for k in accepted if k != key}
                check(
                    rejected(YAML_FACTORIES[kind], dict(raw, name=name)),
                    f'{kind} {name}: missing `{key}` accepted',
                )
                kwargs = {k: ref_value(k, v) for k, v in raw.items()}
                check(
                    rejected(
                        COMPONENT_FACTORIES[kind],
                        name,
                        exceptions=(ValueError,),
                        **kwargs,
                    ),
                    f'{kind} {name}: missing `{key}` accepted by factory',
                )

        # unknown names
        for bad in ['', 'no_such_component', 'Chain', 'reach_exit ']:
            if bad in registry:
                continue
            check(
                rejected(COMPONENT_FACTORIES[kind], bad, exceptions=(ValueError,)),
                f'{kind}: unknown name {bad!r} accepted by factory',
            )
            check(
                rejected(YAML_FACTORIES[kind], {'name': bad}),
                f'{kind}: unknown name {bad!r} accepted',
            )
    check(count > 150, f'only {count} component variants')


def check_component_behaviour():
    """components by name behave like the function called with the parameters"""
    reset = yf.factory_reset_function(
        {'name': 'keydoor', 'shape': [6, 9], 'unused': 1}
    )
    import numpy.random as rnd

    for seed in range(4):
        state_a = reset(rng=rnd.default_rng(seed))
        state_b = reset_fs.keydoor(Shape(6, 9), rng=rnd.default_rng(seed))
        check(state_a == state_b, 'keydoor reset differs from direct call')
        check(state_a.grid.shape == Shape(6, 9), 'non-square shape lost')

        reward = yf.factory_reward_function(
            {
                'name': 'getting_closer',
                'object_type': 'Key',
                'distance_function': 'euclidean',
                'reward_closer': 1.25,
                'reward_further': -2.5,
            }
        )
        terminating = yf.factory_terminating_function({'name': 'reach_exit'})
        observation = yf.factory_observation_function(
            {
                'name': 'from_visibility',
                'area': [[-3, 1], [-1, 2]],
                'visibility_function': {'name': 'stochastic_raytracing'},
            }
        )
        transition = yf.factory_transition_function(
            {
                'name': 'chain',
                'transition_functions': [
                    {'name': 'turn_agent'},
                    {'name': 'move_agent'},
                    {'name': 'pickndrop'},
                ],
            }
        )
        state = state_a
        action_rng = random.Random(seed)
        for _ in range(30):
            action = action_rng.choice(list(Action))
            next_a, next_b = copy.deepcopy(state), copy.deepcopy(state)
            transition(next_a, action, rng=rnd.default_rng(seed))
            rng = rnd.default_rng(seed)
            transition_fs.turn_agent(next_b, action, rng=rng)
            transition_fs.move_agent(next_b, action, rng=rng)
            transition_fs.pickndrop(next_b, action, rng=rng)
            check(next_a == next_b, 'chain differs from direct calls')
            check(
                reward(state, action, next_a)
                == reward_fs.getting_closer(
                    state,
                    action,
                    next_b,
                    object_type=Key,
                    distance_function=Position.euclidean_distance,
                    reward_closer=1.25,
                    reward_further=-2.5,
                ),
                'reward differs from direct call',
            )
            check(
                terminating(state, action, next_a)
                == terminating_fs.reach_exit(state, action, next_b),
                'terminating differs from direct call',
            )
            check(
                observation(next_a, rng=rnd.default_rng(seed + 1))
                == observation_fs.from_visibility(
                    next_b,
                    area=Area((-3, 1), (-1, 2)),
                    visibility_function=visibility_fs.stochastic_raytracing,
                    rng=rnd.default_rng(seed + 1),
                ),
                'observation differs from direct call',
            )
            state = next_a


# --------------------------------------------------------------------------
# 4. the reserved parameter names, one by one and together
# --------------------------------------------------------------------------


def check_reserved_keys():
    # nothing reserved: untouched, same object kept
    data = {'reward': 1.0, 'anything': [1, 2], 7: 'seven'}
    before = dict(data)
    check(yf.process_reserved_keys(data) is None, 'returns something')
    check(data == before, 'non-reserved keys touched')
    check(data['anything'] is before['anything'], 'non-reserved value copied')
    empty = {}
    yf.process_reserved_keys(empty)
    check(empty == {}, 'empty data changed')

    raw = {key: raw_parameter(key, 0) for key in RAW_PARAMETERS}
    raw['reward'] = -1.0
    # one at a time, every subset of two, and everything together
    keys = list(RAW_PARAMETERS)
    subsets = [[key] for key in keys]
    subsets += [[a, b] for i, a in enumerate(keys) for b in keys[i + 1 :]]
    subsets += [keys, list(reversed(keys))]
    for subset in subsets:
        data = {key: copy.deepcopy(raw[key]) for key in subset}
        data['reward'] = raw['reward']
        inputs = copy.deepcopy(data)
        order = list(data)
        yf.process_reserved_keys(data)
        check(list(data) == order, f'{subset}: key order changed')
        for key in data:
            check(
                same_value(data[key], ref_value(key, inputs[key])),
                f'{subset}: wrong value for {key}',
            )
    data = {key: copy.deepcopy(value) for key, value in raw.items()}
    yf.process_reserved_keys(data)
    check(data['shape'] == Shape(6, 9), 'shape')
    check(type(data['layout']) is tuple and data['layout'] == (2, 2), 'layout')
    check(data['area'] == Area([-3, 1], [-1, 2]), 'area')
    check(data['object_type'] is Wall, 'object_type')
    check(
        data['colors'] == {Color.RED, Color.NONE, Color.YELLOW}
        and type(data['colors']) is set,
        'colors',
    )
    check(
        data['distance_function'] == Position.euclidean_distance,
        'distance_function',
    )

    # the first offending reserved key (in processing order) decides the error
    def error_of(data):
        try:
            yf.process_reserved_keys(data)
        except Exception as error:  # pylint: disable=broad-except
            return type(error), str(error)
        return None

    check(
        error_of({'colors': ['PINK'], 'object_type': 'Nope'})
        == (ValueError, 'Unregistered GridObject `Nope`'),
        'object_type is processed before colors',
    )
    check(
        error_of({'object_type': 'Nope', 'distance_function': 'chebyshev'})[0]
        is SchemaError,
        'distance_function is processed before object_type',
    )
    check(
        error_of(
            {
                'distance_function': 'chebyshev',
                'transition_functions': [{'name': 'no_such'}],
            }
        )
        == (ValueError, 'invalid transition function name no_such'),
        'transition_functions is processed first',
    )
    check(error_of({'colors': []})[0] is SchemaError, 'empty colors accepted')
    check(error_of({'colors': ['RED', 'RED']})[0] is SchemaError, 'repeated')
    check(error_of({'shape': [1, 2, 3]})[0] is TypeError, 'shape arity')
    check(error_of({'area': [[0, 1]]})[0] is TypeError, 'area arity')


# --------------------------------------------------------------------------
# 5. corruptions are rejected
# --------------------------------------------------------------------------


def corruptions(data):
    """(label, corrupted copy) pairs of a valid env configuration"""

    def edit(label, function):
        corrupted = copy.deepcopy(data)
        function(corrupted)
        return label, corrupted

    sections = [
        'reset_function',
        'observation_function',
        'terminating_function',
    ]
    for section in sections:
        yield edit(
            f'{section}: unknown name',
            lambda d, s=section: d[s].update(name='no_such_component'),
        )
        yield edit(f'{section}: no name', lambda d, s=section: d[s].pop('name'))
        yield edit(f'{section}: missing', lambda d, s=section: d.pop(s))
        yield edit(
            f'{section}: not a mapping',
            lambda d, s=section: d.update({s: [d[s]]}),
        )
        yield edit(
            f'{section}: name not a string',
            lambda d, s=section: d[s].update(name=3),
        )
        for key, bad_values in {
            'shape': [[5], [5, 5, 5], [0, 5], [5, -1], [5.0, 5], 'ab', 5],
            'layout': [[2], [0, 1], [1, 2, 3], [1.5, 2]],
            'colors': [[], ['PINK'], ['RED', 'RED'], ['red'], 'RED', [1]],
            'object_type': [3, ['Wall'], None],
        }.items():
            for bad in bad_values:
                yield edit(
                    f'{section}: {key}={bad!r}',
                    lambda d, s=section, k=key, b=bad: d[s].update({k: b}),
                )
    for section in ['transition_functions', 'reward_functions']:
        yield edit(f'{section}: empty', lambda d, s=section: d.update({s: []}))
        yield edit(f'{section}: missing', lambda d, s=section: d.pop(s))
        yield edit(
            f'{section}: unknown name',
            lambda d, s=section: d[s].append({'name': 'no_such_component'}),
        )
        yield edit(
            f'{section}: item without name',
            lambda d, s=section: d[s].append({'reward': 1.0}),
        )
        yield edit(
            f'{section}: a mapping', lambda d, s=section: d.update({s: d[s][0]})
        )
    yield edit(
        'reward: unknown object_type',
        lambda d: d['reward_functions'].append(
            {'name': 'getting_closer', 'object_type': 'NoSuchObject'}
        ),
    )
    yield edit(
        'reward: missing required object_type',
        lambda d: d['reward_functions'].append({'name': 'getting_closer'}),
    )
    yield edit(
        'reward: bad distance function',
        lambda d: d['reward_functions'].append(
            {
                'name': 'getting_closer',
                'object_type': 'Exit',
                'distance_function': 'chebyshev',
            }
        ),
    )
    yield edit(
        'observation: no area',
        lambda d: d['observation_function'].pop('area'),
    )
    yield edit(
        'observation: unknown visibility',
        lambda d: d['observation_function'].update(
            name='from_visibility', visibility_function={'name': 'no_such'}
        ),
    )
    yield edit(
        'observation: from_visibility without visibility',
        lambda d: d['observation_function'].update(name='from_visibility'),
    )
    for bad in [[], ['JUMP'], ['TURN_LEFT', 'TURN_LEFT'], 'TURN_LEFT', [0]]:
        yield edit(
            f'action_space={bad!r}', lambda d, b=bad: d.update(action_space=b)
        )
    for space in ['state_space', 'observation_space']:
        yield edit(f'{space}: missing', lambda d, s=space: d.pop(s))
        yield edit(
            f'{space}: no colors', lambda d, s=space: d[s].pop('colors')
        )
        yield edit(
            f'{space}: bad color',
            lambda d, s=space: d[s]['colors'].append('PINK'),
        )
        yield edit(
            f'{space}: repeated color',
            lambda d, s=space: d[s]['colors'].append(d[s]['colors'][0]),
        )
        yield edit(
            f'{space}: empty objects', lambda d, s=space: d[s].update(objects=[])
        )
        yield edit(
            f'{space}: unknown object',
            lambda d, s=space: d[s]['objects'].append('NoSuchObject'),
        )
        yield edit(
            f'{space}: repeated object',
            lambda d, s=space: d[s]['objects'].append(d[s]['objects'][0]),
        )
        yield edit(
            f'{space}: extra key', lambda d, s=space: d[s].update(shape=[3, 3])
        )
    yield edit('unknown top-level key', lambda d: d.update(gravity=9.81))
    yield edit('not a mapping', lambda d: d.clear())


def check_corruptions(datas):
    count = 0
    for path, data in datas.items():
        if 'layout' not in data['reset_function'] and count > 400:
            continue  # a few hundred corruptions of the other files suffice
        for label, corrupted in corruptions(data):
            frozen = copy.deepcopy(corrupted)
            check(
                rejected(yf.factory_env_from_data, corrupted),
                f'{path}: corruption `{label}` was accepted',
            )
            check(corrupted == frozen, f'{path}: `{label}` changed the data')
            count += 1
    check(count > 400, f'only {count} corruptions')

    # base factories
    for function, bad_values in [
        (yf.factory_shape, [[1], [1, 2, 3], [0, 1], [1, -2], [1.0, 2], 'ab']),
        (yf.factory_layout, [[1], [1, 2, 3], [0, 1], [2, 2.5]]),
        (yf.factory_colors, [[], ['PINK'], ['RED', 'RED'], 'RED', [None]]),
        (yf.factory_object_type, [1, None, 'NoSuchObject', ['Wall']]),
        (yf.factory_object_types, [[], ['Wall', 'Wall'], 'Wall', ['Nope']]),
        (yf.factory_distance_function, ['chebyshev', '', None, 1]),
        (yf.factory_action_space, [[], ['JUMP'], ['ACTUATE', 'ACTUATE']]),
        (yf.factory_state_space_builder, [{}, {'objects': ['Wall']}]),
        (yf.factory_observation_space_builder, [{}, {'colors': ['RED']}]),
    ]:
        for bad in bad_values:
            check(
                rejected(function, bad),
                f'{function.__name__}({bad!r}) was accepted',
            )
    check(yf.factory_shape([3, 8]) == Shape(3, 8), 'factory_shape')
    check(yf.factory_layout([1, 4]) == (1, 4), 'factory_layout')
    check(
        yf.factory_colors(['NONE', 'BLUE']) == [Color.NONE, Color.BLUE],
        'factory_colors',
    )
    check(yf.factory_object_type('Exit') is Exit, 'factory_object_type')
    check(
        yf.factory_distance_function('manhattan') == Position.manhattan_distance,
        'factory_distance_function',
    )
    check(
        yf.factory_action_space(['ACTUATE', 'TURN_LEFT']).actions
        == [Action.ACTUATE, Action.TURN_LEFT],
        'factory_action_space',
    )


# --------------------------------------------------------------------------
# 6. required / optional parameter split of the component factories
# --------------------------------------------------------------------------


def check_key_split():
    """which parameters a component factory demands, tolerates and ignores"""
    import numpy.random as rnd

    # awkward signatures, registered under private names in this process
    def awkward_reward(
        state, action, next_state, scale=2.0, *, offset, power: int = 1,
        rng=None, bonus,
    ):
        return scale * 10.0**power + offset + bonus

    def awkward_reset(width=4, *, rng=None, height):
        return reset_fs.empty(Shape(height, width), rng=rng)

    def bare_reset(*, rng=None):
        return reset_fs.empty(Shape(4, 7), rng=rng)

    def awkward_transition(state, action, rng=None, times=1, *, flag):
        for _ in range(times):
            transition_fs.turn_agent(state, action, rng=rng)

    def awkward_terminating(state, action, next_state, *, rng=None, value):
        return bool(value)

    def awkward_observation(state, area, extra=None, *, rng=None):
        return observation_fs.fully_transparent(state, area=area, rng=rng)

    def awkward_visibility(grid, position, *, invert=False, rng=None):
        visibility = visibility_fs.fully_transparent(grid, position, rng=rng)
        return ~visibility if invert else visibility

    cases = [
        # kind, function, required (in order), optional (in order)
        ('reward', awkward_reward, ['offset', 'bonus'], ['scale', 'power']),
        ('reset', awkward_reset, ['height'], ['width']),
        ('reset', bare_reset, [], []),
        ('transition', awkward_transition, ['flag'], ['times']),
        ('terminating', awkward_terminating, ['value'], []),
        ('observation', awkward_observation, ['area'], ['extra']),
        ('visibility', awkward_visibility, [], ['invert']),
    ]
    for kind, function, required, optional in cases:
        registry, _ = REGISTRIES[kind]
        name = f'_c17_demo_{function.__name__}'
        if name not in registry:
            registry.register(function, name=name)
        check(registry[name] is function, f'{name}: not registered')
        check(
            ref_accepted(kind, function) == (required, optional),
            f'{name}: reference split',
        )
        factory = COMPONENT_FACTORIES[kind]
        values = {key: i + 1 for i, key in enumerate(required + optional)}

        # everything, in any order, plus strangers
        for keys in [required + optional, (required + optional)[::-1]]:
            kwargs = {key: values[key] for key in keys}
            kwargs.update(stranger=0, rng_=1, state=2)
            built = factory(name, **kwargs)
            check(built.func is function and built.args == (), f'{name}: func')
            check(
                built.keywords == values
                and list(built.keywords) == keys,
                f'{name}: keywords {built.keywords}',
            )
        # optional parameters may be omitted, one by one and all together
        for omitted in [[key] for key in optional] + [optional]:
            kwargs = {k: v for k, v in values.items() if k not in omitted}
            check(
                factory(name, **kwargs).keywords == kwargs,
                f'{name}: without optional {omitted}',
            )
        # required parameters may not;  the first missing one (in signature
        # order) is the one reported
        for n in range(len(required)):
            for omitted in [[required[n]], required[n:]]:
                kwargs = {k: v for k, v in values.items() if k not in omitted}
                try:
                    factory(name, **kwargs)
                except ValueError as error:
                    check(
                        str(error) == f'missing keyword argument `{required[n]}`',
                        f'{name}: message {error}',
                    )
                else:
                    check(False, f'{name}: built without {omitted}')
        # `rng` and the positional protocol parameters are never bound
        if required == []:
            built = factory(name, rng=rnd.default_rng(0), state=1, grid=2)
            check(built.keywords == {}, f'{name}: protocol parameter bound')

        # the registry helper introduced by the change, when present
        helper = getattr(registry, 'get_nonprotocol_keys', None)
        if helper is not None:
            for _ in range(2):  # repeatable, fresh lists every time
                split = helper(inspect.signature(function))
                check(split == (required, optional), f'{name}: helper {split}')
                split[0].append('mutated')
                split[1].append('mutated')

    # the built awkward components behave like the functions
    reward = reward_fs.factory(
        '_c17_demo_awkward_reward', bonus=0.5, offset=-1.0, power=2, junk=1
    )
    check(reward(None, None, None) == 2.0 * 100.0 - 1.0 + 0.5, 'awkward reward')
    reset = reset_fs.factory('_c17_demo_awkward_reset', height=5, width=8)
    check(reset().grid.shape == Shape(5, 8), 'awkward reset, non-square')
    reset = reset_fs.factory('_c17_demo_awkward_reset', height=6)
    check(reset().grid.shape == Shape(6, 4), 'awkward reset, default width')
    state = reset(rng=rnd.default_rng(0))
    visibility = visibility_fs.factory('_c17_demo_awkward_visibility')
    check(visibility(state.grid, state.agent.position).all(), 'visibility')
    visibility = visibility_fs.factory(
        '_c17_demo_awkward_visibility', invert=True
    )
    check(not visibility(state.grid, state.agent.position).any(), 'inverted')

    # through the configuration layer too
    env_data = {
        'state_space': {'objects': ['Wall', 'Floor', 'Exit'], 'colors': ['NONE']},
        'observation_space': {
            'objects': ['Wall', 'Floor', 'Exit'],
            'colors': ['NONE'],
        },
        'reset_function': {'name': '_c17_demo_awkward_reset', 'height': 5},
        'transition_functions': [
            {'name': '_c17_demo_awkward_transition', 'flag': True, 'times': 3},
            {'name': 'move_agent'},
        ],
        'reward_functions': [
            {'name': '_c17_demo_awkward_reward', 'offset': 1, 'bonus': 2},
        ],
        'observation_function': {
            'name': 'from_visibility',
            'area': [[-2, 0], [-1, 1]],
            'visibility_function': {
                'name': '_c17_demo_awkward_visibility',
                'invert': False,
            },
        },
        'terminating_function': {
            'name': '_c17_demo_awkward_terminating',
            'value': 0,
        },
    }
    pristine = copy.deepcopy(env_data)
    env = yf.factory_env_from_data(env_data)
    check(env_data == pristine, 'awkward env: data changed')
    env_ref = ref_env(env_data)
    same_structure(env, env_ref, 'awkward env')
    same_behaviour(env, env_ref, 'awkward env', seeds=(0, 2), steps=20)
    for section, key in [
        ('reset_function', 'height'),
        ('terminating_function', 'value'),
    ]:
        corrupted = copy.deepcopy(env_data)
        del corrupted[section][key]
        check(
            rejected(yf.factory_env_from_data, corrupted),
            f'awkward env without {key} accepted',
        )

    # every registered function: the split seen through the factory agrees
    # with the reference reading of the signature
    for kind, (registry, _) in REGISTRIES.items():
        helper = getattr(registry, 'get_nonprotocol_keys', None)
        for name, function in sorted(registry.items()):
            required, optional = ref_accepted(kind, function)
            if helper is not None:
                check(
                    helper(inspect.signature(function)) == (required, optional),
                    f'{kind} {name}: helper split',
                )
            parameters = registry.get_nonprotocol_parameters(
                inspect.signature(function)
            )
            check(
                [p.name for p in parameters]
                == [
                    p
                    for p in inspect.signature(function).parameters
                    if p in required + optional
                ],
                f'{kind} {name}: non-protocol parameters',
            )


def main():
    datas = check_shipped()
    check(len(datas) == 22, f'{len(datas)} shipped configurations')
    check_awkward()
    check_components()
    check_component_behaviour()
    check_reserved_keys()
    check_corruptions(datas)
    check_key_split()
    print(f'C17 demo B: {CHECKS} checks passed')


if __name__ == '__main__':
    main()
