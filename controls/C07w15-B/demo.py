"""Demo for change B (Orientation * Position / Area driven by a module-level table).

Run from the worktree root:  /venv/bin/python _seed/B/demo.py

Exits 0 both on the pristine tree and with the patch applied.  Checks

1. Orientation * Position and Orientation * Area (both operand orders) against
   the explicit case analysis embedded here: values, result types, coordinate
   kinds (python and numpy integers, huge integers), new instances, operands
   untouched;
2. the algebra built on top: inverses, composition, Transform products, areas
   rotating like the positions they contain, NotImplemented for other operands;
3. the observation functions against an embedded egocentric reference;
4. property C07: rotating grid and agent pose together by any quarter turn
   leaves the observation of every deterministic built-in observation function
   unchanged, for many view areas;
5. a digest of every observation computed in 4., hard-coded from the pristine
   tree.
"""
import hashlib
import os
import sys

import numpy as np

sys.path.insert(0, os.getcwd())

from gym_gridverse.agent import Agent  # noqa: E402
from gym_gridverse.envs import observation_functions as ofs  # noqa: E402
from gym_gridverse.geometry import (  # noqa: E402
    Area,
    Orientation,
    Position,
    Transform,
)
from gym_gridverse.grid import Grid  # noqa: E402
from gym_gridverse.grid_object import (  # noqa: E402
    Beacon,
    Box,
    Color,
    Door,
    Exit,
    Floor,
    Hidden,
    Key,
    MovingObstacle,
    NoneGridObject,
    Telepod,
    Wall,
)
from gym_gridverse.state import State  # noqa: E402

EXPECTED_DIGEST = (
    '133606f70e7ec68f1bdad57a79a4fbaa18c2e4f375db222a720d03ae09ce278c'
)

failures = []


def check(condition, message):
    if not condition:
        failures.append(message)
        if len(failures) <= 20:
            print('FAIL', message)


# ---------------------------------------------------------------- scenarios


def make_objects(height, width, salt):
    """deterministic, asymmetric layout with all kinds of objects"""
    makers = [
        Floor,
        Floor,
        Wall,
        Floor,
        lambda: Door(Door.Status.OPEN, Color.RED),
        Floor,
        lambda: Door(Door.Status.CLOSED, Color.NONE),
        lambda: Key(Color.BLUE),
        Floor,
        lambda: Door(Door.Status.LOCKED, Color.YELLOW),
        MovingObstacle,
        Floor,
        lambda: Box(Key(Color.GREEN)),
        lambda: Telepod(Color.NONE),
        Floor,
        lambda: Beacon(Color.GREEN),
        lambda: Exit(Color.NONE),
        lambda: Exit(Color.BLUE),
        Wall,
        Floor,
    ]
    return [
        [
            makers[(7 * y * y + 3 * x + 5 * x * y + salt) % len(makers)]()
            for x in range(width)
        ]
        for y in range(height)
    ]


GRID_SHAPES = [(1, 1), (1, 4), (5, 1), (2, 3), (4, 4), (3, 6), (6, 5)]

VIEW_AREAS = [
    Area((-6, 0), (-3, 3)),  # default minigrid-like view
    Area((-2, 0), (-1, 1)),
    Area((-3, 0), (-1, 2)),  # asymmetric left/right
    Area((-1, 0), (-4, 0)),  # agent in the corner of its view
    Area((0, 0), (0, 0)),  # sees only its own cell
    Area((-2, 0), (0, 0)),  # a single column
    Area((0, 0), (-2, 3)),  # a single row
    # agent not at the bottom of the view (partially_occluded not defined)
    Area((-2, 1), (-1, 2)),
    Area((-1, 3), (-2, 0)),
    Area((-3, 3), (-3, 3)),
    Area((0, 2), (0, 3)),
]

HELD = [None, Key(Color.NONE), Key(Color.RED)]

ORIENTATIONS = [
    Orientation.F,
    Orientation.R,
    Orientation.B,
    Orientation.L,
]


def observation_functions_for(area):
    functions = [('fully_transparent', ofs.fully_transparent)]
    if area.contains(Position(0, 0)):
        functions.append(('raytracing', ofs.raytracing))
        if area.ymax == 0:
            functions.append(('partially_occluded', ofs.partially_occluded))
    return functions


# ------------------------------------------- independent world quarter turn

# counter-clockwise quarter turn of the picture
_TURN_ORIENTATION = {
    Orientation.F: Orientation.L,
    Orientation.L: Orientation.B,
    Orientation.B: Orientation.R,
    Orientation.R: Orientation.F,
}


def turn_world(objects, position, orientation):
    height, width = len(objects), len(objects[0])
    new_objects = [
        [objects[j][width - 1 - i] for j in range(height)]
        for i in range(width)
    ]
    new_position = Position(width - 1 - position.x, position.y)
    return new_objects, new_position, _TURN_ORIENTATION[orientation]


# -------------------------------------------------- egocentric reference

# world offset of the view cell (dy, dx) for an agent with given orientation
_WORLD_OFFSET = {
    Orientation.F: lambda dy, dx: (dy, dx),
    Orientation.R: lambda dy, dx: (dx, -dy),
    Orientation.B: lambda dy, dx: (-dy, -dx),
    Orientation.L: lambda dy, dx: (-dx, dy),
}


def reference_fully_transparent(objects, position, orientation, area):
    height, width = len(objects), len(objects[0])
    rows = []
    for dy in range(area.ymin, area.ymax + 1):
        row = []
        for dx in range(area.xmin, area.xmax + 1):
            oy, ox = _WORLD_OFFSET[orientation](dy, dx)
            y, x = position.y + oy, position.x + ox
            inside = 0 <= y < height and 0 <= x < width
            row.append(objects[y][x] if inside else Hidden())
        rows.append(row)
    return rows


def cell_signature(obj):
    return (type(obj).__name__, obj.state_index, obj.color.name)


def grid_signature(grid):
    return tuple(tuple(cell_signature(obj) for obj in row) for row in grid.objects)


def same_cells(rows_a, rows_b):
    return (
        len(rows_a) == len(rows_b)
        and all(len(ra) == len(rb) for ra, rb in zip(rows_a, rows_b))
        and all(
            type(a) is type(b) and a == b
            for ra, rb in zip(rows_a, rows_b)
            for a, b in zip(ra, rb)
        )
    )


# ------------------------------------------------------- 1/2: geometry

# reference implementation (the explicit case analysis), embedded here


def reference_rotate_position(orientation, y, x):
    if orientation is Orientation.F:
        return (y, x)
    if orientation is Orientation.B:
        return (-y, -x)
    if orientation is Orientation.R:
        return (x, -y)
    if orientation is Orientation.L:
        return (-x, y)
    raise AssertionError


def reference_rotate_area(orientation, ys, xs):
    (ymin, ymax), (xmin, xmax) = ys, xs
    if orientation is Orientation.F:
        return ((ymin, ymax), (xmin, xmax))
    if orientation is Orientation.B:
        return ((-ymax, -ymin), (-xmax, -xmin))
    if orientation is Orientation.R:
        return ((xmin, xmax), (-ymax, -ymin))
    if orientation is Orientation.L:
        return ((-xmax, -xmin), (ymin, ymax))
    raise AssertionError


COORDINATES = [0, 1, -1, 2, -3, 7, -12, 10**6, -(10**6), 2**70, -(2**70)]
INTERVALS = [
    (0, 0),
    (-1, 1),
    (-6, 0),
    (0, 3),
    (-3, 2),
    (2, 5),
    (-7, -4),
    (-(2**65), 2**66),
]

check(
    list(Orientation)
    == [Orientation.F, Orientation.B, Orientation.L, Orientation.R],
    'Orientation members',
)
check(
    Orientation.FORWARD is Orientation.F
    and Orientation.BACKWARD is Orientation.B
    and Orientation.LEFT is Orientation.L
    and Orientation.RIGHT is Orientation.R,
    'Orientation aliases',
)

for orientation in ORIENTATIONS:
    for y in COORDINATES:
        for x in COORDINATES:
            position = Position(y, x)
            tag = f'{orientation.name} * {position}'
            expected = reference_rotate_position(orientation, y, x)
            for result in (orientation * position, position * orientation):
                check(type(result) is Position, f'{tag}: type')
                check(result.yx == expected, f'{tag}: value')
                check(
                    type(result.y) is int and type(result.x) is int,
                    f'{tag}: coordinate kinds',
                )
                check(result is not position, f'{tag}: new instance')
            check(position.yx == (y, x), f'{tag}: operand untouched')
            # inverse, composition, and consistency with Transform
            check(
                (-orientation) * (orientation * position) == position,
                f'{tag}: inverse',
            )
            for other in ORIENTATIONS:
                check(
                    (other * orientation) * position
                    == other * (orientation * position),
                    f'{tag}: composition with {other.name}',
                )
            transform = Transform(Position(3, -5), orientation)
            check(
                (transform * position).yx
                == (3 + expected[0], -5 + expected[1]),
                f'{tag}: transform',
            )
            check(
                (-transform) * (transform * position) == position,
                f'{tag}: transform inverse',
            )

    for ys in INTERVALS:
        for xs in INTERVALS:
            area = Area(ys, xs)
            tag = f'{orientation.name} * {area}'
            expected_ys, expected_xs = reference_rotate_area(
                orientation, ys, xs
            )
            for result in (orientation * area, area * orientation):
                check(type(result) is Area, f'{tag}: type')
                check(
                    result.ys == expected_ys and result.xs == expected_xs,
                    f'{tag}: value',
                )
                check(
                    type(result.ys) is tuple and type(result.xs) is tuple,
                    f'{tag}: interval kinds',
                )
                check(result is not area, f'{tag}: new instance')
                check(
                    (result.height, result.width)
                    == (
                        (area.height, area.width)
                        if orientation in (Orientation.F, Orientation.B)
                        else (area.width, area.height)
                    ),
                    f'{tag}: shape',
                )
            check(area.ys == ys and area.xs == xs, f'{tag}: operand untouched')
            check(
                (-orientation) * (orientation * area) == area,
                f'{tag}: inverse',
            )
            # an area rotates like the positions it contains
            if area.height * area.width <= 64:
                rotated = orientation * area
                check(
                    sorted(p.yx for p in rotated.positions())
                    == sorted(
                        (orientation * p).yx for p in area.positions()
                    ),
                    f'{tag}: rotates like its positions',
                )
            transform = Transform(Position(-2, 9), orientation)
            moved = transform * area
            check(
                moved.ys == (-2 + expected_ys[0], -2 + expected_ys[1])
                and moved.xs == (9 + expected_xs[0], 9 + expected_xs[1]),
                f'{tag}: transform',
            )

    # areas given with list intervals still come out with tuple intervals
    listy = orientation * Area([-2, 1], [0, 3])  # type: ignore
    check(
        (listy.ys, listy.xs)
        == reference_rotate_area(orientation, (-2, 1), (0, 3))
        and type(listy.ys) is tuple
        and type(listy.xs) is tuple,
        f'{orientation.name}: list intervals',
    )

    # numpy integers keep their kind, exactly as with the case analysis
    np_position = orientation * Position(np.int64(4), np.int64(-9))
    check(
        np_position.yx == reference_rotate_position(orientation, 4, -9)
        and type(np_position.y) is np.int64
        and type(np_position.x) is np.int64,
        f'{orientation.name}: numpy position',
    )
    mixed = orientation * Position(np.int32(4), -9)
    expected_kinds = {
        Orientation.F: (np.int32, int),
        Orientation.B: (np.int32, int),
        Orientation.R: (int, np.int32),
        Orientation.L: (int, np.int32),
    }[orientation]
    check(
        mixed.yx == reference_rotate_position(orientation, 4, -9)
        and (type(mixed.y), type(mixed.x)) == expected_kinds,
        f'{orientation.name}: mixed position kinds',
    )

    # other operands
    for other in ORIENTATIONS:
        check(
            isinstance(orientation * other, Orientation),
            f'{orientation.name} * {other.name}',
        )
    for junk in [3, 'F', None, (1, 2), 2.5]:
        try:
            orientation * junk
        except TypeError:
            pass
        else:
            check(False, f'{orientation.name} * {junk!r} should be a TypeError')
    check(
        orientation.__mul__(3) is NotImplemented,
        f'{orientation.name}.__mul__(3)',
    )

# -------------------------------------------- 3/4/5: observations and C07

digest = hashlib.sha256()
n_observations = 0

for shape_index, (height, width) in enumerate(GRID_SHAPES):
    objects0 = make_objects(height, width, shape_index)
    for y in range(height):
        for x in range(width):
            for orientation0 in ORIENTATIONS:
                held = HELD[(y + 2 * x + shape_index) % len(HELD)]
                for area in VIEW_AREAS:
                    for name, function in observation_functions_for(area):
                        tag = (
                            f'{name} {height}x{width} ({y},{x}) '
                            f'{orientation0.name} {area}'
                        )
                        objects = objects0
                        position = Position(y, x)
                        orientation = orientation0
                        observations = []
                        for quarter_turns in range(4):
                            state = State(
                                Grid([list(row) for row in objects]),
                                Agent(position, orientation, held),
                            )
                            signature_before = grid_signature(state.grid)
                            observation = function(state, area=area)
                            observations.append(observation)
                            check(
                                grid_signature(state.grid) == signature_before
                                and all(
                                    a is b
                                    for ra, rb in zip(
                                        state.grid.objects, objects
                                    )
                                    for a, b in zip(ra, rb)
                                ),
                                f'{tag}: state untouched',
                            )
                            check(
                                state.agent.position == position
                                and state.agent.orientation is orientation,
                                f'{tag}: agent untouched',
                            )
                            if name == 'fully_transparent':
                                check(
                                    same_cells(
                                        observation.grid.objects,
                                        reference_fully_transparent(
                                            objects,
                                            position,
                                            orientation,
                                            area,
                                        ),
                                    ),
                                    f'{tag}: reference, turn {quarter_turns}',
                                )
                            objects, position, orientation = turn_world(
                                objects, position, orientation
                            )

                        first = observations[0]
                        check(
                            first.grid.shape.as_tuple
                            == (area.height, area.width),
                            f'{tag}: shape',
                        )
                        check(
                            first.agent.position
                            == Position(-area.ymin, -area.xmin)
                            and first.agent.orientation is Orientation.F,
                            f'{tag}: pov agent',
                        )
                        check(
                            first.agent.grid_object
                            == (NoneGridObject() if held is None else held),
                            f'{tag}: held object',
                        )
                        for quarter_turns, other in enumerate(observations):
                            check(
                                other == first
                                and grid_signature(other.grid)
                                == grid_signature(first.grid)
                                and hash(other.grid) == hash(first.grid),
                                f'{tag}: C07 violated at turn {quarter_turns}',
                            )
                        # same state observed twice: equal observations
                        check(
                            function(state, area=area)
                            == function(state, area=area),
                            f'{tag}: repeated call',
                        )
                        digest.update(
                            repr((tag, grid_signature(first.grid))).encode()
                        )
                        n_observations += 1

# the factory-built observation functions (as the environments use them)
for name in ['fully_transparent', 'partially_occluded', 'raytracing']:
    area = Area((-3, 0), (-2, 1))
    function = ofs.factory(name, area=area)
    state = State(
        Grid(make_objects(4, 5, 3)), Agent(Position(0, 4), Orientation.R)
    )
    direct = getattr(ofs, name)(state, area=area)
    check(function(state) == direct, f'factory {name}')

print(f'observations checked: {n_observations}')
print(f'digest: {digest.hexdigest()}')
if EXPECTED_DIGEST != 'PLACE' + 'HOLDER':
    check(digest.hexdigest() == EXPECTED_DIGEST, 'digest differs from pristine')

if failures:
    print(f'{len(failures)} failure(s)')
    sys.exit(1)
print('OK')
