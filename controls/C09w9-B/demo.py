"""Demo for change B (move_obstacles: early exit instead of exception control
flow, hoisted grid/area look-ups, existing `rng.choice` helper).

Runs identically on the pristine tree and with the patch applied: it compares
the library `move_obstacles` with a reference implementation embedded below (a
verbatim copy of the pristine code) -- resulting state *and* resulting random
stream --, checks hard-coded expectations, and checks object conservation
(C09) for single steps of every built-in transition function and along
histories of obstacle and key-door environments.

Run from the worktree root:  /venv/bin/python _seed/B/demo.py
"""
import itertools
import os
import sys
import warnings
from collections import Counter

warnings.filterwarnings('ignore')
sys.path.insert(0, os.getcwd())

import numpy.random as rnd  # noqa: E402

from gym_gridverse import rng as gv_rng  # noqa: E402
from gym_gridverse.action import Action  # noqa: E402
from gym_gridverse.agent import Agent  # noqa: E402
from gym_gridverse.envs import reset_functions  # noqa: E402
from gym_gridverse.envs import transition_functions as tf  # noqa: E402
from gym_gridverse.geometry import (  # noqa: E402
    Orientation,
    Position,
    Shape,
    get_manhattan_boundary,
)
from gym_gridverse.grid import Grid  # noqa: E402
from gym_gridverse.grid_object import (  # noqa: E402
    Beacon,
    Box,
    Color,
    Door,
    Exit,
    Floor,
    Key,
    MovingObstacle,
    NoneGridObject,
    Telepod,
    Wall,
)
from gym_gridverse.rng import get_gv_rng_if_none  # noqa: E402
from gym_gridverse.state import State  # noqa: E402
from gym_gridverse.utils.fast_copy import fast_copy  # noqa: E402

# --------------------------------------------------------------------------
# reference implementation: verbatim copy of the pristine `move_obstacles`


def ref_move_obstacles(state, action, *, rng=None):
    rng = get_gv_rng_if_none(rng)

    # get all positions before performing any movement
    positions = [
        position
        for position in state.grid.area.positions()
        if isinstance(state.grid[position], MovingObstacle)
    ]

    for position in positions:
        next_positions = [
            next_position
            for next_position in get_manhattan_boundary(position, distance=1)
            if state.grid.area.contains(next_position)
            and isinstance(state.grid[next_position], Floor)
        ]

        try:
            i = rng.choice(len(next_positions))
        except ValueError:
            pass
        else:
            next_position = next_positions[i]
            state.grid.swap(position, next_position)


# --------------------------------------------------------------------------
# snapshots and conservation signatures


def describe(obj):
    d = (type(obj).__name__, obj.state_index, obj.color.name)
    if isinstance(obj, Box):
        d += (describe(obj.content),)
    return d


def snapshot(state):
    return (
        tuple(
            tuple(describe(obj) for obj in row) for row in state.grid.objects
        ),
        state.agent.position.yx,
        state.agent.orientation.name,
        describe(state.agent.grid_object),
    )


def kind(obj):
    k = (type(obj).__name__, obj.color.name)
    if isinstance(obj, Box):
        k += (kind(obj.content),)
    return k


def is_nothing(obj):
    return isinstance(obj, (Floor, NoneGridObject))


def multiset(state):
    objs = [obj for row in state.grid.objects for obj in row]
    objs.append(state.agent.grid_object)
    return Counter(kind(obj) for obj in objs if not is_nothing(obj))


def scenery(state):
    return {
        (y, x): kind(obj)
        for y, row in enumerate(state.grid.objects)
        for x, obj in enumerate(row)
        if isinstance(obj, (Wall, Door, Exit, Telepod, Beacon))
    }


def obstacle_cells(state):
    return [
        (y, x)
        for y, row in enumerate(state.grid.objects)
        for x, obj in enumerate(row)
        if isinstance(obj, MovingObstacle)
    ]


def stream(rng):
    """the complete state of the random stream"""
    return repr(rng.bit_generator.state)


def check(condition, *context):
    if not condition:
        print('FAILED', *context)
        sys.exit(1)


# --------------------------------------------------------------------------
# part 0: the facts about numpy the change relies on


def part0():
    rng = rnd.default_rng(7)
    before = stream(rng)
    try:
        rng.choice(0)
    except ValueError:
        pass
    else:
        check(False, 'rng.choice(0) did not raise')
    check(stream(rng) == before, 'rng.choice(0) consumed the stream')

    # the helper draws exactly like the spelled-out index
    a, b = rnd.default_rng(11), rnd.default_rng(11)
    for n in [1, 2, 3, 4, 1, 4, 2]:
        data = [object() for _ in range(n)]
        check(gv_rng.choice(a, data) is data[b.choice(n)], 'helper', n)
        check(stream(a) == stream(b), 'helper stream', n)
    print('part 0: numpy / helper facts hold')


# --------------------------------------------------------------------------
# part 1: hand-written layouts with hard-coded expectations

O, F, W = MovingObstacle, Floor, Wall


def layout_state(rows, position=(0, 0), orientation=Orientation.F, held=None):
    grid = Grid([[factory() for factory in row] for row in rows])
    return State(grid, Agent(Position(*position), orientation, held))


def part1():
    K = lambda: Key(Color.NONE)  # noqa: E731
    D = lambda: Door(Door.Status.OPEN, Color.NONE)  # noqa: E731
    B = lambda: Box(Floor())  # noqa: E731

    # (rows, expected obstacle cells afterwards or None when random)
    layouts = [
        ([[O]], [(0, 0)]),  # 1x1: nowhere to go
        ([[O, F]], [(0, 1)]),  # forced move right
        ([[F, O]], [(0, 0)]),  # forced move left
        ([[O], [F]], [(1, 0)]),  # forced move down
        ([[F], [O]], [(0, 0)]),  # forced move up
        ([[O, O], [O, O]], [(0, 0), (0, 1), (1, 0), (1, 1)]),  # crowded
        ([[O, W], [K, D]], [(0, 0)]),  # enclosed by non-floor, in a corner
        ([[W, B, W], [K, O, D], [W, Exit, W]], [(1, 1)]),  # enclosed, centre
        ([[O, W, F, F]], [(0, 0)]),  # floor exists but not adjacent
        ([[F, F, F]], []),  # no obstacles at all
        ([[W, W], [W, W]], []),
        # the first obstacle is forced onto the only floor cell, then the
        # second one is forced onto the cell which the first one vacated
        ([[F, O, O, W]], [(0, 0), (0, 1)]),
        ([[O, F, O]], None),
        ([[F, F, F], [F, O, F], [F, F, F]], None),
        ([[O, F, F, F, O], [F, F, O, F, F]], None),
    ]

    n = 0
    for (rows, expected), seed in itertools.product(layouts, range(25)):
        for action in Action:
            height, width = len(rows), len(rows[0])
            base = layout_state(
                rows,
                (seed % height, seed % width),
                list(Orientation)[seed % 4],
                Key(Color.RED) if seed % 2 else None,
            )
            context = (rows, seed, action)

            s_lib, s_ref = fast_copy(base), fast_copy(base)
            rng_lib, rng_ref = rnd.default_rng(seed), rnd.default_rng(seed)
            objects_before = {
                id(obj): (y, x)
                for y, row in enumerate(s_lib.grid.objects)
                for x, obj in enumerate(row)
            }

            check(tf.move_obstacles(s_lib, action, rng=rng_lib) is None)
            ref_move_obstacles(s_ref, action, rng=rng_ref)

            check(snapshot(s_lib) == snapshot(s_ref), 'differs', *context)
            check(stream(rng_lib) == stream(rng_ref), 'stream', *context)
            if expected is not None:
                check(obstacle_cells(s_lib) == expected, 'expected', *context)

            # the agent is untouched
            check(snapshot(s_lib)[1:] == snapshot(base)[1:], 'agent', *context)

            # the grid holds the very same objects, permuted;  only obstacles
            # and floors change cell, obstacles by at most one step
            objects_after = {
                id(obj): (y, x)
                for y, row in enumerate(s_lib.grid.objects)
                for x, obj in enumerate(row)
            }
            check(len(objects_after) == height * width, 'aliased', *context)
            check(objects_after.keys() == objects_before.keys(), *context)
            for row in s_lib.grid.objects:
                for obj in row:
                    (y0, x0), (y1, x1) = (
                        objects_before[id(obj)],
                        objects_after[id(obj)],
                    )
                    if (y0, x0) != (y1, x1):
                        check(isinstance(obj, (O, F)), 'moved', *context)
                    if isinstance(obj, O):
                        check(abs(y0 - y1) + abs(x0 - x1) <= 1, 'far', *context)

            check(multiset(s_lib) == multiset(base), 'multiset', *context)
            check(scenery(s_lib) == scenery(base), 'scenery', *context)
            n += 1

    # enclosed obstacles draw nothing: the stream is untouched
    for rows, _ in layouts[:1] + layouts[5:11]:
        rng = rnd.default_rng(5)
        before = stream(rng)
        tf.move_obstacles(layout_state(rows), Action.MOVE_FORWARD, rng=rng)
        check(stream(rng) == before, 'stream consumed', rows)

    print(f'part 1: {n} layout steps agree with reference and expectations')


# --------------------------------------------------------------------------
# part 2: random states; library rng (rng=None) and re-seeding


def random_state(rng, obstacle_weight):
    height, width = int(rng.integers(1, 7)), int(rng.integers(1, 7))
    palette = (
        [Floor] * 3
        + [MovingObstacle] * obstacle_weight
        + [
            Wall,
            Exit,
            lambda: Door(
                Door.Status(int(rng.integers(3))), Color(int(rng.integers(5)))
            ),
            lambda: Key(Color(int(rng.integers(5)))),
            lambda: Box(Key(Color(int(rng.integers(5))))),
            lambda: Box(Floor()),
            lambda: Box(MovingObstacle()),
            lambda: Telepod(Color(int(rng.integers(1, 3)))),
            lambda: Beacon(Color(int(rng.integers(5)))),
        ]
    )
    objects = [
        [palette[rng.integers(len(palette))]() for _ in range(width)]
        for _ in range(height)
    ]
    held = [None, Key(Color(int(rng.integers(5))))][rng.integers(2)]
    agent = Agent(
        Position(int(rng.integers(height)), int(rng.integers(width))),
        list(Orientation)[rng.integers(4)],
        held,
    )
    return State(Grid(objects), agent)


def expected_multiset(state, action, opens_boxes):
    expected = multiset(state)
    front = state.agent.front()
    if (
        opens_boxes
        and action is Action.ACTUATE
        and state.grid.area.contains(front)
        and isinstance(state.grid[front], Box)
    ):
        box = state.grid[front]
        expected[kind(box)] -= 1
        if not is_nothing(box.content):
            expected[kind(box.content)] += 1
        expected = +expected
    return expected


def part2():
    rng = rnd.default_rng(424242)
    others = [
        tf.move_agent,
        tf.turn_agent,
        tf.actuate_door,
        tf.actuate_box,
        tf.pickndrop,
        tf.teleport,
    ]
    n = 0
    for i in range(1500):
        state = random_state(rng, obstacle_weight=[1, 3, 12][i % 3])
        seed = int(rng.integers(1 << 30))
        action = list(Action)[rng.integers(len(Action))]
        context = (seed, action, snapshot(state))

        # explicit generator, several steps in a row (repeated calls)
        s_lib, s_ref = fast_copy(state), fast_copy(state)
        rng_lib, rng_ref = rnd.default_rng(seed), rnd.default_rng(seed)
        for t in range(4):
            tf.move_obstacles(s_lib, action, rng=rng_lib)
            ref_move_obstacles(s_ref, action, rng=rng_ref)
            check(snapshot(s_lib) == snapshot(s_ref), 'differs', t, *context)
            check(stream(rng_lib) == stream(rng_ref), 'stream', t, *context)
            check(multiset(s_lib) == multiset(state), 'multiset', t, *context)
            check(scenery(s_lib) == scenery(state), 'scenery', t, *context)
            check(snapshot(s_lib)[1:] == snapshot(state)[1:], 'agent', *context)

        # library generator, re-seeded in between
        s_lib, s_ref = fast_copy(state), fast_copy(state)
        gv_rng.reset_gv_rng(seed)
        tf.move_obstacles(s_lib, action)
        tf.move_obstacles(s_lib, action, rng=None)
        stream_lib = stream(gv_rng.get_gv_rng())
        gv_rng.reset_gv_rng(seed)
        ref_move_obstacles(s_ref, action)
        ref_move_obstacles(s_ref, action, rng=None)
        check(snapshot(s_lib) == snapshot(s_ref), 'library rng', *context)
        check(stream(gv_rng.get_gv_rng()) == stream_lib, 'lib stream', *context)

        # compositions: move_obstacles inside a chain with everything else,
        # in two orders, against the same chain built with the reference
        for order in [others + [tf.move_obstacles], [tf.move_obstacles] + others]:
            links_ref = [
                ref_move_obstacles if f is tf.move_obstacles else f
                for f in order
            ]
            chain_lib = tf.factory('chain', transition_functions=order)
            chain_ref = tf.factory('chain', transition_functions=links_ref)
            rng_lib, rng_ref = rnd.default_rng(seed), rnd.default_rng(seed)
            n_lib = tf.transition_with_copy(
                chain_lib, state, action, rng=rng_lib
            )
            n_ref = tf.transition_with_copy(
                chain_ref, state, action, rng=rng_ref
            )
            check(snapshot(n_lib) == snapshot(n_ref), 'chain', *context)
            check(stream(rng_lib) == stream(rng_ref), 'chain stream', *context)
            check(scenery(n_lib) == scenery(state), 'chain scenery', *context)
            if order[-1] is tf.move_obstacles or action is not Action.ACTUATE:
                # (obstacles first, then teleport: the actuated box may not
                # be the one in front of the initial pose; totals only)
                check(
                    multiset(n_lib) == expected_multiset(state, action, True),
                    'chain multiset',
                    *context,
                )
            else:
                total = sum(multiset(n_lib).values())
                check(abs(total - sum(multiset(state).values())) <= 1, *context)
        n += 1
    print(f'part 2: {n} random states agree (explicit / library rng, chains)')


# --------------------------------------------------------------------------
# part 3: histories of the obstacle and key-door environments


def run_history(reset, links_lib, links_ref, seed, steps):
    chain_lib = tf.factory('chain', transition_functions=links_lib)
    chain_ref = tf.factory('chain', transition_functions=links_ref)

    rng_lib, rng_ref = rnd.default_rng(seed), rnd.default_rng(seed)
    s_lib, s_ref = reset(rng=rng_lib), reset(rng=rng_ref)
    check(snapshot(s_lib) == snapshot(s_ref), 'reset', seed)

    start = multiset(s_lib)
    walls = scenery(s_lib)
    actions = list(Action)
    rng_actions = rnd.default_rng(seed + 1)
    moved = 0
    for t in range(steps):
        action = actions[rng_actions.integers(len(actions))]
        cells = obstacle_cells(s_lib)
        s_lib = tf.transition_with_copy(chain_lib, s_lib, action, rng=rng_lib)
        s_ref = tf.transition_with_copy(chain_ref, s_ref, action, rng=rng_ref)
        moved += obstacle_cells(s_lib) != cells
        check(snapshot(s_lib) == snapshot(s_ref), 'history', seed, t, action)
        check(stream(rng_lib) == stream(rng_ref), 'history stream', seed, t)
        check(multiset(s_lib) == start, 'history multiset', seed, t, action)
        check(scenery(s_lib) == walls, 'history scenery', seed, t, action)
    return moved


def part3():
    moved = 0
    base = [tf.move_agent, tf.turn_agent]
    for shape, num_obstacles in [
        ((5, 5), 1),
        ((7, 7), 2),
        ((4, 9), 5),
        ((9, 4), 12),
        ((4, 4), 2),  # crowded: the only free floor is the agent's cell
        ((6, 4), 0),
    ]:
        for random_agent in [False, True]:
            for seed in range(10):
                reset = reset_functions.factory(
                    'dynamic_obstacles',
                    shape=Shape(*shape),
                    num_obstacles=num_obstacles,
                    random_agent=random_agent,
                )
                moved += run_history(
                    reset,
                    base + [tf.move_obstacles],
                    base + [ref_move_obstacles],
                    seed,
                    80,
                )
    check(moved > 0, 'obstacles never moved')

    # key-door environments with wandering obstacles added to the chain
    for shape in [(5, 5), (7, 7), (4, 6), (6, 11)]:
        for seed in range(6):
            reset_keydoor = reset_functions.factory(
                'keydoor', shape=Shape(*shape)
            )

            def reset(*, rng, reset_keydoor=reset_keydoor):
                state = reset_keydoor(rng=rng)
                floors = [
                    p
                    for p in state.grid.area.positions()
                    if isinstance(state.grid[p], Floor)
                    and p != state.agent.position
                ]
                for p in floors[::3]:
                    state.grid[p] = MovingObstacle()
                return state

            links = base + [tf.actuate_door, tf.pickndrop]
            run_history(
                reset,
                links + [tf.move_obstacles],
                links + [ref_move_obstacles],
                seed,
                80,
            )
    print(f'part 3: histories agree and conserve (obstacles moved {moved} times)')


if __name__ == '__main__':
    part0()
    part1()
    part2()
    part3()
    print('OK')
