"""demo for change A (design.draw_room_grid materializes its coordinates)

Run from the worktree root:  /venv/bin/python _seed/A/demo.py
Exits 0 on the pristine tree and with the patch applied.
"""
import os
import sys
import warnings

warnings.filterwarnings('ignore')
sys.path.insert(0, os.getcwd())

# ---------------------------------------------------------------------------
# property C13 checker
# ---------------------------------------------------------------------------

import hashlib
import itertools as itt

from gym_gridverse.envs import reset_functions as rf
from gym_gridverse.geometry import Orientation, Position, Shape
from gym_gridverse.grid_object import (
    Beacon,
    Color,
    Door,
    Exit,
    Floor,
    Key,
    MovingObstacle,
    NoneGridObject,
    Telepod,
    Wall,
)
from gym_gridverse.rng import make_rng, reset_gv_rng


def cells(state):
    h, w = state.grid.shape.height, state.grid.shape.width
    return [((y, x), state.grid[y, x]) for y in range(h) for x in range(w)]


def of_type(state, cls):
    return [(yx, obj) for yx, obj in cells(state) if type(obj) is cls]


def render(state):
    """canonical text of a state (types, states, colors, agent)"""
    rows = []
    for y in range(state.grid.shape.height):
        rows.append(
            ' '.join(
                f'{type(state.grid[y, x]).__name__}'
                f':{state.grid[y, x].state_index}'
                f':{state.grid[y, x].color.name}'
                for x in range(state.grid.shape.width)
            )
        )
    agent = state.agent
    rows.append(
        f'agent {agent.position.y} {agent.position.x} '
        f'{agent.orientation.name} {type(agent.grid_object).__name__}'
    )
    return '\n'.join(rows)


def check_common(state, shape, *, num_exits=1):
    grid, agent = state.grid, state.agent
    h, w = shape.height, shape.width
    # requested shape, rectangular storage
    assert grid.shape == Shape(h, w), (grid.shape, shape)
    assert len(grid.objects) == h and all(len(r) == w for r in grid.objects)
    # unbroken wall boundary
    for y in range(h):
        for x in range(w):
            if y in (0, h - 1) or x in (0, w - 1):
                assert type(grid[y, x]) is Wall, (y, x, grid[y, x])
    # agent inside, empty-handed, on a free cell
    y, x = agent.position.yx
    assert 0 <= y < h and 0 <= x < w, agent.position
    assert isinstance(agent.orientation, Orientation)
    assert type(agent.grid_object) is NoneGridObject
    under = grid[y, x]
    assert not under.blocks_movement, under
    assert not isinstance(under, (Exit, MovingObstacle, Telepod)), under
    # one object per cell (no aliasing)
    ids = [id(obj) for _, obj in cells(state)]
    assert len(ids) == len(set(ids))
    # exits
    assert len(of_type(state, Exit)) == num_exits, of_type(state, Exit)


def only_types(state, *allowed):
    for yx, obj in cells(state):
        assert type(obj) in allowed, (yx, obj)


def check_empty(state, shape, random_agent, random_exit):
    check_common(state, shape)
    only_types(state, Floor, Wall, Exit)
    h, w = shape.height, shape.width
    walls = len(of_type(state, Wall))
    assert walls == 2 * h + 2 * w - 4
    if not random_exit:
        assert type(state.grid[h - 2, w - 2]) is Exit
    if not random_agent:
        assert state.agent.position == Position(1, 1)
        assert state.agent.orientation is Orientation.R


def check_rooms(state, shape, layout):
    check_common(state, shape)
    only_types(state, Floor, Wall, Exit)


def check_dynamic_obstacles(state, shape, num_obstacles, random_agent):
    check_common(state, shape)
    only_types(state, Floor, Wall, Exit, MovingObstacle)
    assert len(of_type(state, MovingObstacle)) == num_obstacles


def check_keydoor(state, shape):
    check_common(state, shape)
    only_types(state, Floor, Wall, Exit, Door, Key)
    h, w = shape.height, shape.width
    ((door_yx, door),) = of_type(state, Door)
    ((key_yx, key),) = of_type(state, Key)
    assert door.is_locked and door.color is key.color is Color.YELLOW
    x_wall = door_yx[1]
    assert 2 <= x_wall <= w - 3 and 1 <= door_yx[0] <= h - 2
    for y in range(1, h - 1):
        if y != door_yx[0]:
            assert type(state.grid[y, x_wall]) is Wall
    assert key_yx[1] < x_wall
    assert state.agent.position.x < x_wall
    assert type(state.grid[h - 2, w - 2]) is Exit


def check_crossing(state, shape, num_rivers, object_type):
    check_common(state, shape)
    only_types(state, Floor, Wall, Exit, object_type)
    assert state.agent.position == Position(1, 1)
    # exit reachable from agent through non-river cells
    h, w = shape.height, shape.width
    seen, todo = {(1, 1)}, [(1, 1)]
    while todo:
        y, x = todo.pop()
        for dy, dx in ((0, 1), (1, 0), (0, -1), (-1, 0)):
            q = (y + dy, x + dx)
            if q in seen or not (0 <= q[0] < h and 0 <= q[1] < w):
                continue
            if type(state.grid[q]) in (Floor, Exit):
                seen.add(q)
                todo.append(q)
    assert (h - 2, w - 2) in seen


def check_teleport(state, shape):
    check_common(state, shape)
    only_types(state, Floor, Wall, Exit, Telepod)
    pods = of_type(state, Telepod)
    assert len(pods) == 2
    assert pods[0][1].color is pods[1][1].color
    assert state.agent.position == Position(1, 1)


def check_memory(state, shape, colors):
    check_common(state, shape, num_exits=2)
    only_types(state, Floor, Wall, Exit, Beacon)
    exits = of_type(state, Exit)
    beacons = of_type(state, Beacon)
    exit_colors = [obj.color for _, obj in exits]
    assert len(set(exit_colors)) == 2 and set(exit_colors) <= set(colors)
    assert len(beacons) == 2
    beacon_colors = {obj.color for _, obj in beacons}
    assert len(beacon_colors) == 1
    assert exit_colors.count(next(iter(beacon_colors))) == 1


def check_memory_rooms(state, shape, layout, colors, num_beacons, num_exits):
    check_common(state, shape, num_exits=num_exits)
    only_types(state, Floor, Wall, Exit, Beacon)
    exit_colors = [obj.color for _, obj in of_type(state, Exit)]
    assert len(set(exit_colors)) == num_exits
    assert set(exit_colors) <= set(colors)
    beacons = of_type(state, Beacon)
    assert len(beacons) == num_beacons
    beacon_colors = {obj.color for _, obj in beacons}
    assert len(beacon_colors) == 1
    assert exit_colors.count(next(iter(beacon_colors))) == 1


class Outcome:
    """tally of outcomes; anything but a good state or ValueError is fatal"""

    def __init__(self):
        self.ok = 0
        self.rejected = 0
        self.digest = hashlib.sha256()

    def run(self, label, function, checker, args, seed):
        try:
            state = function(*args, rng=make_rng(seed))
        except ValueError:
            self.rejected += 1
            self.digest.update(f'{label} {seed} ValueError\n'.encode())
            return None
        checker(state, *args)
        self.ok += 1
        self.digest.update(f'{label} {seed}\n{render(state)}\n'.encode())
        return state


SHAPES = [
    Shape(h, w) for h, w in itt.product([1, 2, 3, 4, 5, 6, 7, 9, 10, 13], repeat=2)
]
SEEDS = range(6)


def sweep():
    """property C13 over all eight reset functions; returns the tally"""
    C = Color
    out = Outcome()
    layouts = [(1, 1), (1, 2), (2, 1), (2, 2), (3, 2), (2, 3), (3, 3), (1, 4)]
    memory_rooms_params = [
        ({C.RED, C.BLUE}, 1, 2),
        ({C.RED, C.GREEN, C.BLUE}, 2, 3),
        ({C.RED, C.GREEN, C.BLUE}, 1, 2),
        ({C.RED, C.BLUE}, 3, 3),
        ({C.RED}, 1, 2),
        ({C.RED, C.NONE}, 1, 2),
        (set(), 1, 2),
        ({C.RED, C.BLUE}, 0, 2),
        ({C.RED, C.BLUE}, 1, 1),
    ]
    memory_params = [
        {C.RED, C.BLUE},
        {C.RED, C.GREEN, C.BLUE, C.YELLOW},
        {C.RED},
        set(),
        {C.RED, C.NONE},
    ]
    for shape in SHAPES:
        for seed in SEEDS:
            for ra, re_ in itt.product((False, True), repeat=2):
                out.run('empty', rf.empty, check_empty, (shape, ra, re_), seed)
            for layout in layouts:
                out.run('rooms', rf.rooms, check_rooms, (shape, layout), seed)
                for colors, nb, ne in memory_rooms_params:
                    out.run(
                        'memory_rooms',
                        rf.memory_rooms,
                        check_memory_rooms,
                        (shape, layout, colors, nb, ne),
                        seed,
                    )
            for n, ra in itt.product((-1, 0, 1, 2, 5, 30, 200), (False, True)):
                out.run(
                    'dynamic_obstacles',
                    rf.dynamic_obstacles,
                    check_dynamic_obstacles,
                    (shape, n, ra),
                    seed,
                )
            out.run('keydoor', rf.keydoor, check_keydoor, (shape,), seed)
            for n, t in itt.product((-1, 0, 1, 2, 3, 50), (Wall, MovingObstacle)):
                out.run(
                    'crossing', rf.crossing, check_crossing, (shape, n, t), seed
                )
            out.run('teleport', rf.teleport, check_teleport, (shape,), seed)
            for colors in memory_params:
                out.run(
                    'memory', rf.memory, check_memory, (shape, colors), seed
                )
    return out


def check_reseeding():
    """repeated calls, module-level rng, re-seeding, interleaved functions"""
    shape = Shape(7, 9)
    calls = [
        lambda rng: rf.empty(shape, True, True, rng=rng),
        lambda rng: rf.rooms(Shape(10, 13), (2, 3), rng=rng),
        lambda rng: rf.dynamic_obstacles(shape, 4, True, rng=rng),
        lambda rng: rf.keydoor(shape, rng=rng),
        lambda rng: rf.crossing(shape, 3, Wall, rng=rng),
        lambda rng: rf.teleport(shape, rng=rng),
        lambda rng: rf.memory(shape, {Color.RED, Color.BLUE}, rng=rng),
        lambda rng: rf.memory_rooms(
            Shape(10, 13), (2, 2), {Color.RED, Color.BLUE, Color.GREEN}, 2, 3, rng=rng
        ),
    ]
    for seed in (0, 1, 12345):
        # explicit generator, same seed twice -> identical sequences of states
        rng1, rng2 = make_rng(seed), make_rng(seed)
        first = [render(call(rng1)) for call in calls for _ in range(3)]
        second = [render(call(rng2)) for call in calls for _ in range(3)]
        assert first == second
        # module-level generator behaves like an explicit one with same seed
        reset_gv_rng(seed)
        third = [render(call(None)) for call in calls for _ in range(3)]
        assert first == third
        # re-seeding restarts the sequence
        reset_gv_rng(seed)
        assert render(calls[0](None)) == first[0]
    # states returned by different calls do not share cells
    rng = make_rng(3)
    a, b = rf.rooms(Shape(7, 7), (2, 2), rng=rng), rf.rooms(Shape(7, 7), (2, 2), rng=rng)
    ids_a = {id(obj) for _, obj in cells(a)}
    ids_b = {id(obj) for _, obj in cells(b)}
    assert not ids_a & ids_b


# ---------------------------------------------------------------------------
# change-specific part: design.draw_room_grid against the original spelling
# ---------------------------------------------------------------------------

import more_itertools as mitt
import numpy as np

from gym_gridverse import design
from gym_gridverse.agent import Agent
from gym_gridverse.grid import Grid
from gym_gridverse.rng import choice, choices
from gym_gridverse.state import State


def reference_draw_room_grid(grid, ys, xs, factory):
    """the original implementation (pristine tree), on re-iterable inputs"""
    y_range = range(min(ys), max(ys) + 1)
    x_range = range(min(xs), max(xs) + 1)
    positions = [Position(y, x) for y in ys for x in x_range]
    for position in positions:
        grid[position] = factory()
    ys_remaining = [y for y in y_range if y not in ys]
    positions_v = [Position(y, x) for y in ys_remaining for x in xs]
    for position in positions_v:
        grid[position] = factory()
    return positions + positions_v


class CountingFactory:
    def __init__(self):
        self.count = 0

    def __call__(self):
        self.count += 1
        return Wall()


def grid_text(grid):
    return '\n'.join(
        ''.join(
            '#' if type(grid[y, x]) is Wall else '.'
            for x in range(grid.shape.width)
        )
        for y in range(grid.shape.height)
    )


COORDINATES = [
    # (shape, ys, xs)
    ((7, 9), [0, 3, 6], [0, 4, 8]),
    ((7, 9), [0, 6], [0, 8]),
    ((7, 9), [6, 0, 3], [8, 0]),  # unsorted
    ((7, 9), [0, 3, 3, 6], [0, 4, 4, 8]),  # repetitions
    ((7, 9), [2], [5]),  # single line each
    ((7, 9), [1, 5], [2]),  # interior only
    ((7, 9), [0, 1, 2, 3, 4, 5, 6], [3]),  # no remaining rows
    ((1, 1), [0], [0]),
    ((1, 6), [0], [0, 5]),
    ((6, 1), [0, 5], [0]),
    ((2, 2), [0, 1], [0, 1]),
    ((3, 3), [0, 2], [0, 2]),
    ((10, 13), [0, 4, 9], [0, 3, 6, 9, 12]),
]

CONVERTERS = {
    'list': list,
    'tuple': tuple,
    'ndarray': lambda v: np.array(v, dtype=int),
    'int64 list': lambda v: [np.int64(i) for i in v],
}


def check_draw_room_grid():
    for (h, w), ys, xs in COORDINATES:
        grid_ref = Grid.from_shape((h, w))
        factory_ref = CountingFactory()
        expected = reference_draw_room_grid(grid_ref, ys, xs, factory_ref)

        for name_y, conv_y in CONVERTERS.items():
            for name_x, conv_x in CONVERTERS.items():
                grid = Grid.from_shape((h, w))
                factory = CountingFactory()
                ys_in, xs_in = conv_y(ys), conv_x(xs)
                positions = design.draw_room_grid(grid, ys_in, xs_in, factory)
                assert isinstance(positions, list)
                assert positions == expected, (ys, xs, name_y, name_x)
                assert grid_text(grid) == grid_text(grid_ref)
                assert factory.count == factory_ref.count == len(expected)
                # inputs left untouched
                assert list(ys_in) == ys and list(xs_in) == xs
                # drawn objects are all distinct
                drawn = [id(grid[p]) for p in set(positions)]
                assert len(drawn) == len(set(drawn))

        # ranges (sorted, no repetitions) when applicable
        if ys == list(range(ys[0], ys[-1] + 1)):
            grid = Grid.from_shape((h, w))
            positions = design.draw_room_grid(
                grid, range(ys[0], ys[-1] + 1), xs, Wall
            )
            assert positions == expected and grid_text(grid) == grid_text(grid_ref)

        # one-shot iterables:  the pristine tree exhausts them while computing
        # min() and fails with ValueError;  if the call succeeds, it must
        # agree with the reference on the same coordinates
        grid = Grid.from_shape((h, w))
        try:
            positions = design.draw_room_grid(grid, iter(ys), iter(xs), Wall)
        except ValueError:
            pass
        else:
            assert positions == expected and grid_text(grid) == grid_text(grid_ref)

    # empty coordinates are rejected with ValueError, grid untouched or not
    for ys, xs in [([], [0, 2]), ([0, 2], []), ([], [])]:
        grid = Grid.from_shape((3, 3))
        try:
            design.draw_room_grid(grid, ys, xs, Wall)
        except ValueError:
            pass
        else:
            raise AssertionError('empty coordinates accepted')

    # out-of-grid coordinates still fail with IndexError
    grid = Grid.from_shape((3, 3))
    try:
        design.draw_room_grid(grid, [0, 5], [0, 2], Wall)
    except IndexError:
        pass
    else:
        raise AssertionError('out-of-grid coordinates accepted')


def reference_room_layout(shape, layout, rng):
    """walls and passages of rooms/memory_rooms with the reference drawing"""
    layout_height, layout_width = layout
    y_splits = np.linspace(0, shape.height - 1, num=layout_height + 1, dtype=int)
    if len(y_splits) != len(set(y_splits)):
        raise ValueError('height')
    x_splits = np.linspace(0, shape.width - 1, num=layout_width + 1, dtype=int)
    if len(x_splits) != len(set(x_splits)):
        raise ValueError('width')
    grid = Grid.from_shape((shape.height, shape.width))
    reference_draw_room_grid(grid, y_splits, x_splits, Wall)
    for y in y_splits[1:-1]:
        for x_from, x_to in mitt.pairwise(x_splits):
            grid[y, rng.integers(x_from + 1, x_to)] = Floor()
    for y_from, y_to in mitt.pairwise(y_splits):
        for x in x_splits[1:-1]:
            grid[rng.integers(y_from + 1, y_to), x] = Floor()
    positions = [
        Position(y, x)
        for y in range(shape.height)
        for x in range(shape.width)
        if isinstance(grid[y, x], Floor)
    ]
    return grid, positions


def reference_rooms(shape, layout, *, rng):
    grid, positions = reference_room_layout(shape, layout, rng)
    agent_position, exit_position = choices(rng, positions, size=2, replace=False)
    agent_orientation = choice(rng, list(Orientation))
    grid[exit_position] = Exit()
    return State(grid, Agent(agent_position, agent_orientation))


def reference_memory_rooms(shape, layout, colors, num_beacons, num_exits, *, rng):
    grid, positions = reference_room_layout(shape, layout, rng)
    positions = choices(
        rng, positions, size=1 + num_beacons + num_exits, replace=False
    )
    agent = Agent(positions[0], choice(rng, list(Orientation)))
    sorted_colors = sorted(colors, key=lambda color: color.value)
    sample_colors = choices(rng, sorted_colors, size=num_exits, replace=False)
    for position in positions[1 : 1 + num_beacons]:
        grid[position] = Beacon(sample_colors[0])
    for position, color in zip(positions[1 + num_beacons :], sample_colors):
        grid[position] = Exit(color)
    return State(grid, agent)


def outcome(function, *args, seed):
    try:
        return render(function(*args, rng=make_rng(seed)))
    except ValueError:
        return 'ValueError'


def check_against_reference_rooms():
    colors = {Color.RED, Color.GREEN, Color.BLUE}
    layouts = [(1, 1), (1, 2), (2, 1), (2, 2), (3, 2), (2, 3), (3, 3), (1, 4), (4, 4)]
    compared = 0
    for shape in SHAPES + [Shape(17, 11), Shape(8, 21)]:
        for layout in layouts:
            for seed in range(8):
                got = outcome(rf.rooms, shape, layout, seed=seed)
                want = outcome(reference_rooms, shape, layout, seed=seed)
                assert got == want, (shape, layout, seed)
                got = outcome(
                    rf.memory_rooms, shape, layout, colors, 2, 3, seed=seed
                )
                want = outcome(
                    reference_memory_rooms, shape, layout, colors, 2, 3, seed=seed
                )
                assert got == want, (shape, layout, seed)
                compared += 2
    return compared


EXPECTED_OK = 12666
EXPECTED_REJECTED = 57534
EXPECTED_DIGEST = (
    '926f240c9a3bd59673c83e6e1e7599ede1c7d10edfdb450d879f1ec5a023e0cc'
)


def main():
    check_draw_room_grid()
    print('draw_room_grid agrees with the original implementation')

    compared = check_against_reference_rooms()
    print(f'rooms / memory_rooms agree with reference ({compared} outcomes)')

    check_reseeding()
    print('repeated calls / re-seeding ok')

    out = sweep()
    print(f'property sweep: ok={out.ok} rejected={out.rejected}')
    assert out.ok == EXPECTED_OK, out.ok
    assert out.rejected == EXPECTED_REJECTED, out.rejected
    assert out.digest.hexdigest() == EXPECTED_DIGEST, out.digest.hexdigest()
    print('all outcomes identical to the recorded ones')


if __name__ == '__main__':
    main()
