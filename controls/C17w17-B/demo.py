"""Demo for change B (registry helper `get_nonprotocol_keys` behind the six
`factory(name, **kwargs)` functions).

Run from the worktree root:  /venv/bin/python _seed/B/demo.py

It only uses the public behaviour of the factories, so it runs on the pristine
tree and with the patch alike.  Checks:

* for every registered component name, and many parameter sets, the factory
  binds exactly the accepted parameters (hard-coded table of required and
  optional parameter names, in signature order), ignores the others -
  including parameters named like the protocol arguments -, keeps the caller's
  keyword order, rejects a missing required parameter with a ValueError naming
  the first missing one, rejects unknown names with a ValueError, leaves its
  input alone and is repeatable;
* a component obtained by name behaves like the registered function called
  with these parameters: resets (non-square shapes, seeds), transitions (all
  actions), rewards, terminating functions, visibilities and observations
  (all four headings, corners and borders, asymmetric areas);
* composites (`chain`, `reduce_sum`, `reduce_any`, `reduce_all`) obtained from
  the factories run every part exactly once, in order, with the same rng;
* user-registered functions with every kind of parameter (keyword-only,
  positional-or-keyword, defaults of None/False/0) and custom `module:name`
  components go through the same machinery;
* a GridWorld assembled from factory-made components follows the same
  trajectories as one assembled from hand-made partials.
"""
import collections
import copy
import functools
import itertools as itt
import os
import random
import sys

import numpy as np
import numpy.random as rnd

ROOT = os.getcwd()
sys.path.insert(0, ROOT)
sys.path.insert(0, os.path.join(ROOT, 'examples'))  # for `coin_env:...`

from gym_gridverse.action import Action  # noqa: E402
from gym_gridverse.envs import (  # noqa: E402
    observation_functions as observation_fs,
    reset_functions as reset_fs,
    reward_functions as reward_fs,
    terminating_functions as terminating_fs,
    transition_functions as transition_fs,
    visibility_functions as visibility_fs,
)
from gym_gridverse.envs.gridworld import GridWorld  # noqa: E402
from gym_gridverse.geometry import (  # noqa: E402
    Area,
    Orientation,
    Position,
    Shape,
    distance_function_factory,
)
from gym_gridverse.grid_object import (  # noqa: E402
    Color,
    Door,
    Exit,
    Floor,
    Key,
    MovingObstacle,
    Wall,
)
from gym_gridverse.spaces import (  # noqa: E402
    ActionSpace,
    ObservationSpace,
    StateSpace,
)

CHECKS = 0


def check(condition, message):
    global CHECKS
    CHECKS += 1
    if not condition:
        raise AssertionError(message)


MODULES = {
    'reset': reset_fs,
    'transition': transition_fs,
    'reward': reward_fs,
    'observation': observation_fs,
    'visibility': visibility_fs,
    'terminating': terminating_fs,
}
REGISTRIES = {
    kind: getattr(module, f'{kind}_function_registry')
    for kind, module in MODULES.items()
}
PROTOCOL = {
    'reset': ['rng'],
    'transition': ['state', 'action', 'rng'],
    'reward': ['state', 'action', 'next_state', 'rng'],
    'terminating': ['state', 'action', 'next_state', 'rng'],
    'observation': ['state', 'rng'],
    'visibility': ['grid', 'position', 'rng'],
}

# name -> (parameters without default, parameters with default), in signature
# order;  hard-coded expectation
EXPECTED_KEYS = {
    'reset': {
        'empty': (['shape'], ['random_agent', 'random_exit']),
        'rooms': (['shape', 'layout'], []),
        'dynamic_obstacles': (['shape', 'num_obstacles'], ['random_agent']),
        'keydoor': (['shape'], []),
        'crossing': (['shape', 'num_rivers', 'object_type'], []),
        'teleport': (['shape'], []),
        'memory': (['shape', 'colors'], []),
        'memory_rooms': (
            ['shape', 'layout', 'colors', 'num_beacons', 'num_exits'],
            [],
        ),
    },
    'transition': {
        'chain': (['transition_functions'], []),
        'move_agent': ([], []),
        'turn_agent': ([], []),
        'pickndrop': ([], []),
        'move_obstacles': ([], []),
        'actuate_door': ([], []),
        'actuate_box': ([], []),
        'teleport': ([], []),
    },
    'reward': {
        'reduce': (['reward_functions', 'reduction'], []),
        'reduce_sum': (['reward_functions'], []),
        'overlap': (['object_type'], ['reward_on', 'reward_off']),
        'living_reward': ([], ['reward']),
        'reach_exit': ([], ['reward_on', 'reward_off']),
        'bump_moving_obstacle': ([], ['reward']),
        'proportional_to_distance': (
            ['object_type'],
            ['distance_function', 'reward_per_unit_distance'],
        ),
        'getting_closer': (
            ['object_type'],
            ['distance_function', 'reward_closer', 'reward_further'],
        ),
        'getting_closer_shortest_path': (
            ['object_type'],
            ['reward_closer', 'reward_further'],
        ),
        'bump_into_wall': ([], ['reward']),
        'actuate_door': ([], ['reward_open', 'reward_close']),
        'pickndrop': (['object_type'], ['reward_pick', 'reward_drop']),
        'reach_exit_memory': ([], ['reward_good', 'reward_bad']),
    },
    'observation': {
        'from_visibility': (['area', 'visibility_function'], []),
        'fully_transparent': (['area'], []),
        'partially_occluded': (['area'], []),
        'raytracing': (['area'], []),
        'stochastic_raytracing': (['area'], []),
    },
    'visibility': {
        'fully_transparent': ([], []),
        'partially_occluded': ([], []),
        'raytracing': ([], ['absolute_counts', 'threshold']),
        'stochastic_raytracing': ([], []),
    },
    'terminating': {
        'reduce': (['terminating_functions', 'reduction'], []),
        'reduce_any': (['terminating_functions'], []),
        'reduce_all': (['terminating_functions'], []),
        'overlap': (['object_type'], []),
        'reach_exit': ([], []),
        'bump_moving_obstacle': ([], []),
        'bump_into_wall': ([], []),
    },
}


class Token:
    """an opaque parameter value"""

    def __init__(self, label):
        self.label = label

    def __repr__(self):
        return f'Token({self.label})'


def reference_factory(kind, name, kwargs, keys=None):
    """what `factory(name, **kwargs)` has to do, from the hard-coded table"""
    function = REGISTRIES[kind][name]
    required, optional = EXPECTED_KEYS[kind][name] if keys is None else keys
    for key in required:
        if key not in kwargs:
            raise ValueError(f'missing keyword argument `{key}`')
    accepted = {
        key: value
        for key, value in kwargs.items()
        if key in required or key in optional
    }
    return function, accepted


def outcome_of_factory(kind, name, kwargs):
    snapshot = dict(kwargs)
    try:
        made = MODULES[kind].factory(name, **kwargs)
    except ValueError as error:
        result = ('ValueError', str(error))
    else:
        check(type(made) is functools.partial, f'{kind}/{name}: not a partial')
        check(made.args == (), f'{kind}/{name}: positional arguments bound')
        result = ('partial', made.func, list(made.keywords.items()))
    check(kwargs == snapshot, f'{kind}/{name}: kwargs modified')
    check(list(kwargs) == list(snapshot), f'{kind}/{name}: kwargs reordered')
    return result


def outcome_of_reference(kind, name, kwargs, keys=None):
    try:
        function, accepted = reference_factory(kind, name, kwargs, keys)
    except ValueError as error:
        return ('ValueError', str(error))
    return ('partial', function, list(accepted.items()))


def parameter_sets(kind, required, optional):
    """systematic parameter sets for one component"""
    names = required + optional
    full = {key: Token(key) for key in names}
    yield dict(full)
    yield dict(reversed(list(full.items())))  # caller's order is kept
    yield {key: full[key] for key in required}
    yield {}
    yield {'junk': Token('junk'), **full, 'more_junk': None}
    # protocol-named parameters are never bound
    yield {**full, **{key: Token(key) for key in PROTOCOL[kind]}}
    yield {key: Token(key) for key in PROTOCOL[kind]}
    # falsy values are values
    yield {key: None for key in names}
    yield {key: 0 for key in names}
    # every subset of the optional ones
    for n in range(len(optional) + 1):
        for subset in itt.combinations(optional, n):
            yield {
                **{key: full[key] for key in subset},
                **{key: full[key] for key in required},
            }
    # every required one missing in turn, and pairs of them
    for key in required:
        yield {k: v for k, v in full.items() if k != key}
    for pair in itt.combinations(required, 2):
        yield {k: v for k, v in full.items() if k not in pair}
        yield dict(
            reversed([(k, v) for k, v in full.items() if k not in pair])
        )
    # only optional ones
    if required:
        yield {key: full[key] for key in optional}


def check_binding():
    for kind, registry in REGISTRIES.items():
        builtin = {
            name
            for name, function in registry.items()
            if function.__module__ == MODULES[kind].__name__
        }
        check(
            builtin == set(EXPECTED_KEYS[kind]),
            f'{kind}: registered names {sorted(builtin)}',
        )

        for name, (required, optional) in EXPECTED_KEYS[kind].items():
            for kwargs in parameter_sets(kind, required, optional):
                got = outcome_of_factory(kind, name, kwargs)
                expected = outcome_of_reference(kind, name, kwargs)
                check(
                    got == expected,
                    f'{kind}/{name} with {kwargs!r}: {got!r} != {expected!r}',
                )
                if got[0] == 'partial':
                    # bound values are the very objects passed in
                    check(
                        all(value is kwargs[key] for key, value in got[2]),
                        f'{kind}/{name}: values copied',
                    )
                check(
                    got == outcome_of_factory(kind, name, kwargs),
                    f'{kind}/{name}: not repeatable',
                )

        # unknown names
        for name in ('nope', '', 'Empty', 'factory', 'reduce_product'):
            try:
                MODULES[kind].factory(name, shape=Shape(4, 4))
            except ValueError as error:
                check(name in str(error), f'{kind}: message {error}')
            else:
                check(False, f'{kind}: unknown name {name!r} accepted')

    # hard-coded spot checks
    made = reset_fs.factory(
        'rooms', layout=(2, 3), junk=1, shape=Shape(7, 10), rng='ignored'
    )
    check(made.func is reset_fs.rooms, 'rooms')
    check(
        list(made.keywords.items())
        == [('layout', (2, 3)), ('shape', Shape(7, 10))],
        f'rooms keywords {made.keywords}',
    )
    try:
        reset_fs.factory('memory_rooms', num_exits=2, colors=set())
    except ValueError as error:
        check(str(error) == 'missing keyword argument `shape`', str(error))
    else:
        check(False, 'memory_rooms without shape accepted')
    try:
        reset_fs.factory('memory_rooms', num_exits=2, shape=1, layout=2)
    except ValueError as error:
        check(str(error) == 'missing keyword argument `colors`', str(error))
    else:
        check(False, 'memory_rooms without colors accepted')
    try:
        reward_fs.factory('reduce', reduction=sum)
    except ValueError as error:
        check(
            str(error) == 'missing keyword argument `reward_functions`',
            str(error),
        )
    else:
        check(False, 'reduce without reward_functions accepted')
    made = visibility_fs.factory('raytracing', threshold=0.5, grid=None)
    check(made.keywords == {'threshold': 0.5}, f'raytracing {made.keywords}')


# --------------------------------------------------------------------------
# user-registered functions
# --------------------------------------------------------------------------

PROBE_LOG = []


def register_probes():
    """registers functions with every kind of parameter, once per process"""

    @reset_fs.reset_function_registry.register(name='demo_b_reset')
    def demo_b_reset(shape, flag=False, *, extra=None, count=0, rng=None):
        return ('reset', shape, flag, extra, count, rng)

    @transition_fs.transition_function_registry.register(name='demo_b_probe')
    def demo_b_transition(s, a, label, *, scale=1, rng=None):
        PROBE_LOG.append(('transition', label, scale, s, a, rng))

    @reward_fs.reward_function_registry.register(name='demo_b_probe')
    def demo_b_reward(s, a, t, *, label, value=0.0, rng=None):
        PROBE_LOG.append(('reward', label, value, s, a, t, rng))
        return value

    @terminating_fs.terminating_function_registry.register(name='demo_b_probe')
    def demo_b_terminating(s, a, t, *, label, value=False, rng=None):
        PROBE_LOG.append(('terminating', label, value, s, a, t, rng))
        return value

    @observation_fs.observation_function_registry.register(name='demo_b_probe')
    def demo_b_observation(s, *, area, tag='x', rng=None):
        return ('observation', s, area, tag, rng)

    @visibility_fs.visibility_function_registry.register(name='demo_b_probe')
    def demo_b_visibility(g, p, *, fill=True, rng=None):
        return ('visibility', g, p, fill, rng)


def check_user_functions():
    register_probes()

    custom_keys = {
        'reset': ('demo_b_reset', (['shape'], ['flag', 'extra', 'count'])),
        'transition': ('demo_b_probe', (['label'], ['scale'])),
        'reward': ('demo_b_probe', (['label'], ['value'])),
        'terminating': ('demo_b_probe', (['label'], ['value'])),
        'observation': ('demo_b_probe', (['area'], ['tag'])),
        'visibility': ('demo_b_probe', ([], ['fill'])),
    }
    # protocol parameters of the probes have other names than usual
    probe_protocol = {
        'reset': ['rng'],
        'transition': ['s', 'a', 'rng'],
        'reward': ['s', 'a', 't', 'rng'],
        'terminating': ['s', 'a', 't', 'rng'],
        'observation': ['s', 'rng'],
        'visibility': ['g', 'p', 'rng'],
    }
    for kind, (name, keys) in custom_keys.items():
        for kwargs in itt.chain(
            parameter_sets(kind, *keys),
            [{key: Token(key) for key in probe_protocol[kind] + keys[0]}],
        ):
            got = outcome_of_factory(kind, name, kwargs)
            expected = outcome_of_reference(kind, name, kwargs, keys)
            check(got == expected, f'{kind}/{name} with {kwargs!r}: {got!r}')

    rng = rnd.default_rng(3)
    made = reset_fs.factory('demo_b_reset', shape='S', count=0, zzz=1)
    check(made(rng=rng) == ('reset', 'S', False, None, 0, rng), 'probe reset')
    made = reset_fs.factory('demo_b_reset', extra=False, flag=None, shape=())
    check(made() == ('reset', (), None, False, 0, None), 'probe reset falsy')
    made = observation_fs.factory('demo_b_probe', area='A', rng='no', s='no')
    check(made('S', rng=rng) == ('observation', 'S', 'A', 'x', rng), 'probe obs')
    made = visibility_fs.factory('demo_b_probe', fill=0)
    check(made('G', 'P') == ('visibility', 'G', 'P', 0, None), 'probe vis')

    # custom `module:name` components (examples/coin_env.py)
    made = reset_fs.factory('coin_env:coin_maze', shape='ignored')
    import coin_env

    check(made.func is coin_env.coin_maze, 'custom reset')
    check(made.keywords == {}, 'custom reset keywords')
    check(
        made(rng=rnd.default_rng(5)) == coin_env.coin_maze(rng=rnd.default_rng(5)),
        'custom reset behaviour',
    )
    check(
        transition_fs.factory('coin_env:collect_coin_transition').func
        is coin_env.collect_coin_transition,
        'custom transition',
    )
    check(
        terminating_fs.factory('coin_env:no_more_coins', x=1).func
        is coin_env.no_more_coins,
        'custom terminating',
    )
    try:
        reward_fs.factory('coin_env:nope')
    except ValueError:
        check(True, '')
    else:
        check(False, 'unknown custom name accepted')


def check_composites():
    """every configured part runs exactly once, in order, with the same rng"""
    rng = rnd.default_rng(11)
    state, action, next_state = Token('s'), Token('a'), Token('t')

    for labels in ([], ['a'], ['a', 'b', 'c'], ['x', 'x', 'y', 'x']):
        parts = [
            transition_fs.factory('demo_b_probe', label=label, scale=i)
            for i, label in enumerate(labels)
        ]
        chain = transition_fs.factory('chain', transition_functions=parts)
        for use_rng in (rng, None):
            del PROBE_LOG[:]
            check(chain(state, action, rng=use_rng) is None, 'chain returns None')
            check(
                PROBE_LOG
                == [
                    ('transition', label, i, state, action, use_rng)
                    for i, label in enumerate(labels)
                ],
                f'chain {labels}: {PROBE_LOG}',
            )
            check(
                all(entry[-1] is use_rng for entry in PROBE_LOG), 'chain rng'
            )

        values = [0.25 * (i + 1) for i in range(len(labels))]
        parts = [
            reward_fs.factory('demo_b_probe', label=label, value=value)
            for label, value in zip(labels, values)
        ]
        reduce_sum = reward_fs.factory('reduce_sum', reward_functions=parts)
        reduce_max = reward_fs.factory(
            'reduce', reward_functions=parts, reduction=lambda rs: max(rs, default=-1)
        )
        for made, expected in (
            (reduce_sum, sum(values)),
            (reduce_max, max(values, default=-1)),
        ):
            del PROBE_LOG[:]
            check(
                made(state, action, next_state, rng=rng) == expected,
                f'reward reduction {labels}',
            )
            check(
                PROBE_LOG
                == [
                    ('reward', label, value, state, action, next_state, rng)
                    for label, value in zip(labels, values)
                ],
                f'reward parts {labels}: {PROBE_LOG}',
            )

        for flags in set(itt.product([False, True], repeat=len(labels))):
            parts = [
                terminating_fs.factory('demo_b_probe', label=label, value=flag)
                for label, flag in zip(labels, flags)
            ]
            for name, reduction in (('reduce_any', any), ('reduce_all', all)):
                made = terminating_fs.factory(name, terminating_functions=parts)
                del PROBE_LOG[:]
                check(
                    made(state, action, next_state, rng=rng) is reduction(flags),
                    f'{name} {flags}',
                )
                # any/all may stop early, but never skip or repeat a part
                check(
                    PROBE_LOG
                    == [
                        ('terminating', label, flag, state, action, next_state, rng)
                        for label, flag in zip(labels, flags)
                    ][: len(PROBE_LOG)],
                    f'{name} parts {flags}',
                )
                stop = (
                    flags.index(name == 'reduce_any') + 1
                    if (name == 'reduce_any') in flags
                    else len(flags)
                )
                check(len(PROBE_LOG) == stop, f'{name} {flags}: evaluated parts')


# --------------------------------------------------------------------------
# behaviour: component by name == registered function with these parameters
# --------------------------------------------------------------------------

RESET_PARAMETERS = {
    'empty': [
        {'shape': Shape(4, 4)},
        {'shape': Shape(4, 9), 'random_agent': True},
        {'shape': Shape(9, 4), 'random_agent': True, 'random_exit': True},
        {'shape': Shape(5, 6), 'random_exit': True, 'junk': 1},
    ],
    'rooms': [
        {'shape': Shape(7, 10), 'layout': (2, 3)},
        {'shape': Shape(5, 5), 'layout': (1, 1)},
        {'shape': Shape(13, 7), 'layout': (3, 2), 'colors': 'ignored'},
    ],
    'dynamic_obstacles': [
        {'shape': Shape(6, 9), 'num_obstacles': 2, 'random_agent': True},
        {'shape': Shape(5, 5), 'num_obstacles': 1},
    ],
    'keydoor': [{'shape': Shape(5, 9)}, {'shape': Shape(9, 5)}],
    'crossing': [
        {'shape': Shape(7, 9), 'num_rivers': 2, 'object_type': Wall},
        {'shape': Shape(5, 5), 'num_rivers': 1, 'object_type': Wall},
    ],
    'teleport': [{'shape': Shape(5, 8)}, {'shape': Shape(7, 7)}],
    'memory': [
        {'shape': Shape(5, 7), 'colors': {Color.RED, Color.GREEN}},
        {'shape': Shape(9, 9), 'colors': {Color.BLUE, Color.YELLOW, Color.RED}},
    ],
    'memory_rooms': [
        {
            'shape': Shape(9, 9),
            'layout': (2, 2),
            'colors': {Color.RED, Color.GREEN, Color.BLUE},
            'num_beacons': 1,
            'num_exits': 2,
        },
        {
            'shape': Shape(10, 13),
            'layout': (2, 3),
            'colors': {Color.RED, Color.YELLOW},
            'num_beacons': 2,
            'num_exits': 2,
        },
    ],
}


def accepted(kind, name, kwargs):
    required, optional = EXPECTED_KEYS[kind][name]
    return {k: v for k, v in kwargs.items() if k in required + optional}


def same(a, b):
    if isinstance(a, np.ndarray) or isinstance(b, np.ndarray):
        return (
            isinstance(a, np.ndarray)
            and isinstance(b, np.ndarray)
            and a.dtype == b.dtype
            and a.shape == b.shape
            and np.array_equal(a, b)
        )
    return type(a) is type(b) and a == b and repr(a) == repr(b)


def outcome(function, *args, seed):
    try:
        return ('returned', function(*args, rng=rnd.default_rng(seed)))
    except Exception as error:  # pylint: disable=broad-except
        return ('raised', type(error).__name__, str(error))


def same_outcome(a, b):
    return (
        a[0] == b[0]
        and len(a) == len(b)
        and all(same(x, y) for x, y in zip(a[1:], b[1:]))
    )


def check_resets():
    states = []
    check(set(RESET_PARAMETERS) == set(EXPECTED_KEYS['reset']), 'all resets')
    for name, parameter_list in RESET_PARAMETERS.items():
        function = reset_fs.reset_function_registry[name]
        for kwargs in parameter_list:
            made = reset_fs.factory(name, **kwargs)
            for seed in (0, 1, 42):
                got = made(rng=rnd.default_rng(seed))
                expected = function(
                    **accepted('reset', name, kwargs), rng=rnd.default_rng(seed)
                )
                check(same(got, expected), f'reset {name} {kwargs} seed {seed}')
                check(
                    got.grid.shape == kwargs['shape'], f'reset {name}: shape'
                )
            states.append(got)
    return states


def awkward_poses(state):
    """the state with its agent in corners / on borders, all four headings"""
    height, width = state.grid.shape.height, state.grid.shape.width
    positions = [
        Position(0, 0),
        Position(0, width - 1),
        Position(height - 1, 0),
        Position(height - 1, width - 1),
        Position(0, width // 2),
        Position(height // 2, 0),
        Position(height // 2, width // 2),
        Position(1, 1),
    ]
    for position, orientation in itt.product(positions, Orientation):
        posed = copy.deepcopy(state)
        posed.agent.position = position
        posed.agent.orientation = orientation
        yield posed


def check_transitions_rewards_terminations(states):
    transition_parameters = {
        name: [{}, {'junk': 1, 'rng': 'ignored'}]
        for name in EXPECTED_KEYS['transition']
    }
    transition_parameters['chain'] = [
        {'transition_functions': []},
        {
            'transition_functions': [
                transition_fs.factory('move_agent'),
                transition_fs.factory('turn_agent'),
                transition_fs.factory(
                    'chain',
                    transition_functions=[
                        transition_fs.factory('actuate_door'),
                        transition_fs.factory('pickndrop'),
                        transition_fs.factory('move_obstacles'),
                        transition_fs.factory('teleport'),
                    ],
                ),
            ]
        },
    ]
    rewards = [1.0, 0.0, -2.5, 1e308]
    reward_parameters = {
        'overlap': [
            {'object_type': Exit},
            {'object_type': Floor, 'reward_on': 0.0, 'reward_off': -1.0},
        ],
        'living_reward': [{}, {'reward': -0.05}, {'reward': 0.0}],
        'reach_exit': [{}, {'reward_on': 5.0}, {'reward_off': -1.0, 'x': 1}],
        'bump_moving_obstacle': [{}, {'reward': -3.0}],
        'proportional_to_distance': [
            {'object_type': Exit},
            {
                'object_type': Exit,
                'distance_function': distance_function_factory('euclidean'),
                'reward_per_unit_distance': 0.5,
            },
        ],
        'getting_closer': [
            {'object_type': Exit},
            {
                'object_type': Exit,
                'distance_function': distance_function_factory('manhattan'),
                'reward_closer': 0.2,
                'reward_further': -0.2,
            },
        ],
        'getting_closer_shortest_path': [
            {'object_type': Exit, 'reward_closer': 2.0},
        ],
        'bump_into_wall': [{}, {'reward': -1.0}],
        'actuate_door': [{}, {'reward_open': 1.0, 'reward_close': -1.0}],
        'pickndrop': [
            {'object_type': Key},
            {'object_type': Key, 'reward_pick': 1.0, 'reward_drop': -1.0},
        ],
        'reach_exit_memory': [{}, {'reward_good': 3.0, 'reward_bad': -3.0}],
        'reduce_sum': [
            {'reward_functions': []},
            {
                'reward_functions': [
                    reward_fs.factory('living_reward', reward=r) for r in rewards
                ]
            },
        ],
        'reduce': [
            {
                'reward_functions': [
                    reward_fs.factory('living_reward', reward=r) for r in rewards
                ],
                'reduction': lambda rs: min(rs),
            }
        ],
    }
    terminating_parameters = {
        'overlap': [{'object_type': Exit}, {'object_type': Floor, 'x': 1}],
        'reach_exit': [{}],
        'bump_moving_obstacle': [{}, {'rng': 1}],
        'bump_into_wall': [{}],
        'reduce_any': [
            {'terminating_functions': []},
            {
                'terminating_functions': [
                    terminating_fs.factory('reach_exit'),
                    terminating_fs.factory('bump_into_wall'),
                ]
            },
        ],
        'reduce_all': [
            {'terminating_functions': []},
            {
                'terminating_functions': [
                    terminating_fs.factory('overlap', object_type=Floor),
                    terminating_fs.factory('bump_into_wall'),
                ]
            },
        ],
        'reduce': [
            {
                'terminating_functions': [terminating_fs.factory('reach_exit')],
                'reduction': lambda flags: not any(flags),
            }
        ],
    }
    check(set(transition_parameters) == set(EXPECTED_KEYS['transition']), 't')
    check(set(reward_parameters) == set(EXPECTED_KEYS['reward']), 'r')
    check(set(terminating_parameters) == set(EXPECTED_KEYS['terminating']), 'e')

    def run(function, state, action, seed):
        """in-place transition on a copy;  returns the copy, or the error"""
        state = copy.deepcopy(state)
        try:
            returned = function(state, action, rng=rnd.default_rng(seed))
        except Exception as error:  # pylint: disable=broad-except
            return ('raised', type(error).__name__, str(error))
        return ('returned', returned, state)

    tape = random.Random(2)
    triples = []
    for state in states:
        # a few steps into the episode, so that doors / keys / obstacles matter
        walk = copy.deepcopy(state)
        everything = transition_parameters['chain'][1]['transition_functions']
        for _ in range(6):
            for part in everything:
                part(walk, tape.choice(list(Action)), rng=rnd.default_rng(0))
        for start in (state, walk):
            for action in Action:
                for name, parameter_list in transition_parameters.items():
                    function = transition_fs.transition_function_registry[name]
                    for kwargs in parameter_list:
                        made = transition_fs.factory(name, **kwargs)
                        got = run(made, start, action, 7)
                        expected = run(
                            functools.partial(
                                function, **accepted('transition', name, kwargs)
                            ),
                            start,
                            action,
                            7,
                        )
                        check(
                            same_outcome(got, expected),
                            f'transition {name} {action}',
                        )
                        if got[0] == 'returned' and name == 'chain':
                            triples.append((start, action, got[2]))

    check(len(triples) >= 100, 'enough transitions')
    for state, action, next_state in triples[::3]:
        for kind, parameters in (
            ('reward', reward_parameters),
            ('terminating', terminating_parameters),
        ):
            for name, parameter_list in parameters.items():
                function = REGISTRIES[kind][name]
                for kwargs in parameter_list:
                    made = MODULES[kind].factory(name, **kwargs)
                    got = outcome(made, state, action, next_state, seed=3)
                    expected = outcome(
                        functools.partial(
                            function, **accepted(kind, name, kwargs)
                        ),
                        state,
                        action,
                        next_state,
                        seed=3,
                    )
                    check(
                        same_outcome(got, expected),
                        f'{kind} {name} {kwargs}: {got} {expected}',
                    )


def check_observations(states):
    areas = [
        Area((-6, 0), (-3, 3)),
        Area((-2, 1), (-1, 3)),  # asymmetric, sees behind
        Area((-3, 0), (0, 0)),  # a single column
        Area((0, 0), (0, 0)),  # the agent's cell only
        Area((-1, 1), (-4, 0)),  # only to the left
    ]
    visibility_parameters = {
        'fully_transparent': [{}],
        'partially_occluded': [{}, {'junk': 1}],
        'raytracing': [
            {},
            {'absolute_counts': False, 'threshold': 0.5},
            {'threshold': 2, 'grid': 'ignored'},
        ],
        'stochastic_raytracing': [{}],
    }
    check(
        set(visibility_parameters) == set(EXPECTED_KEYS['visibility']),
        'all visibilities',
    )

    returned = collections.Counter()
    posed_states = []
    for state in states[::3]:
        posed_states.extend(list(awkward_poses(state))[::5])
    check(len(posed_states) >= 30, 'enough poses')

    for posed in posed_states:
        # visibility functions see the grid from the top-left .. of the agent
        for name, parameter_list in visibility_parameters.items():
            function = visibility_fs.visibility_function_registry[name]
            for kwargs in parameter_list:
                made = visibility_fs.factory(name, **kwargs)
                got = outcome(
                    made, posed.grid, posed.agent.position, seed=9
                )
                expected = outcome(
                    functools.partial(
                        function, **accepted('visibility', name, kwargs)
                    ),
                    posed.grid,
                    posed.agent.position,
                    seed=9,
                )
                check(
                    same_outcome(got, expected), f'visibility {name} {kwargs}'
                )
                returned['visibility', name] += got[0] == 'returned'

        for area in areas[:: 1 if posed is posed_states[0] else 2]:
            for name in EXPECTED_KEYS['observation']:
                function = observation_fs.observation_function_registry[name]
                kwargs = {'area': area, 'shape': 'ignored'}
                if name == 'from_visibility':
                    kwargs['visibility_function'] = visibility_fs.factory(
                        'raytracing', threshold=2
                    )
                made = observation_fs.factory(name, **kwargs)
                got = outcome(made, posed, seed=4)
                expected = outcome(
                    functools.partial(
                        function, **accepted('observation', name, kwargs)
                    ),
                    posed,
                    seed=4,
                )
                check(
                    same_outcome(got, expected), f'observation {name} {area}'
                )
                if got[0] == 'returned':
                    returned['observation', name] += 1
                    check(
                        got[1].grid.shape == Shape(area.height, area.width),
                        f'observation {name} {area}: shape',
                    )
                else:
                    # the occlusion model needs the agent in the bottom row
                    check(
                        got[1] == 'NotImplementedError' and area.ymax != 0,
                        f'observation {name} {area}: {got}',
                    )

    for key, count in returned.items():
        check(count >= 20, f'{key}: only {count} successful calls')


def check_environment():
    """several environments in one process, re-seeding, by name vs by hand"""

    def assemble(by_name):
        def component(kind, name, **kwargs):
            if by_name:
                return MODULES[kind].factory(name, **kwargs, junk=None)
            return functools.partial(REGISTRIES[kind][name], **kwargs)

        reset = component('reset', 'keydoor', shape=Shape(5, 9))
        transition = component(
            'transition',
            'chain',
            transition_functions=[
                component('transition', 'move_agent'),
                component('transition', 'turn_agent'),
                component('transition', 'actuate_door'),
                component('transition', 'pickndrop'),
            ],
        )
        reward = component(
            'reward',
            'reduce_sum',
            reward_functions=[
                component('reward', 'reach_exit', reward_on=5.0),
                component('reward', 'pickndrop', object_type=Key),
                component(
                    'reward',
                    'getting_closer',
                    object_type=Exit,
                    reward_closer=0.2,
                    reward_further=-0.2,
                ),
                component('reward', 'living_reward', reward=-0.05),
            ],
        )
        observation = component(
            'observation', 'partially_occluded', area=Area((-4, 0), (-3, 3))
        )
        terminating = component('terminating', 'reach_exit')
        objects = [Wall, Floor, Exit, Door, Key, MovingObstacle]
        colors = [Color.NONE, Color.YELLOW]
        return GridWorld(
            StateSpace(Shape(5, 9), objects, colors),
            ActionSpace(list(Action)),
            ObservationSpace(Shape(5, 7), objects, colors),
            reset,
            transition,
            observation,
            reward,
            terminating,
        )

    def trajectory(env, seed):
        tape = random.Random(seed)
        env.set_seed(seed)
        env.reset()
        record = [(env.state, repr(env.state), env.observation)]
        for _ in range(60):
            action = tape.choice(list(Action))
            reward, done = env.step(action)
            record.append(
                (action, reward, done, env.state, repr(env.state), env.observation)
            )
            if done:
                env.reset()
        return record

    first, second, by_hand = assemble(True), assemble(True), assemble(False)
    for seed in (0, 1, 2, 99):
        expected = trajectory(by_hand, seed)
        check(trajectory(first, seed) == expected, f'env seed {seed}')
        check(trajectory(second, seed) == expected, f'second env seed {seed}')
    check(trajectory(first, 0) == trajectory(by_hand, 0), 're-seeding')


def main():
    check_binding()
    check_user_functions()
    check_composites()
    states = check_resets()
    check_transitions_rewards_terminations(states)
    check_observations(states)
    check_environment()
    print(f'OK ({CHECKS} checks)')


if __name__ == '__main__':
    main()
