"""C08 demo (refactoring B): agent kinematics -- moves and turns do exactly what the action says.

Run as:  cd /tmp/wt5-C08 && /venv/bin/python -W ignore _seed/B/demo.py

The expected behaviour is computed by a small independent model written with
plain integers (no library geometry), and compared with what the library does
through its public API:

  S1  get_next_position            -- all positions x headings x actions
  S2  move_agent                   -- all small grids x poses x actions x target-cell kinds
  S3  turn_agent                   -- all headings x actions (+ quarter-turn algebra)
  S4  other transition functions   -- never change the pose (teleport: only as specified)
  S5  registry / factory / chain   -- same functions reachable by their registered names
  S6  rollouts in all 21 shipped configurations (per-function and GridWorld level)
  S7  orientation / position / area / transform algebra used by the kinematics

Exits 0 iff every assertion holds.
"""
import copy
import os
import sys

sys.path.insert(0, os.getcwd())

import numpy.random as rnd  # noqa: E402

from gym_gridverse.action import Action  # noqa: E402
from gym_gridverse.agent import Agent  # noqa: E402
from gym_gridverse.envs import transition_functions as tf  # noqa: E402
from gym_gridverse.envs.utils import get_next_position  # noqa: E402
from gym_gridverse.envs.yaml import factory as yf  # noqa: E402
from gym_gridverse import geometry  # noqa: E402
from gym_gridverse.geometry import (  # noqa: E402
    Area,
    Orientation,
    Position,
    Transform,
)
from gym_gridverse.grid import Grid  # noqa: E402
from gym_gridverse.grid_object import (  # noqa: E402
    Beacon,
    Box,
    Color,
    Door,
    Exit,
    Floor,
    Hidden,
    Key,
    MovingObstacle,
    NoneGridObject,
    Telepod,
    Wall,
)
from gym_gridverse.state import State  # noqa: E402

# --------------------------------------------------------------------------
# independent model (plain integers)
# --------------------------------------------------------------------------

# heading index: 0 = up (-y), 1 = right (+x), 2 = down (+y), 3 = left (-x)
HEADING_OF = {'FORWARD': 0, 'RIGHT': 1, 'BACKWARD': 2, 'LEFT': 3}
DELTA = [(-1, 0), (0, 1), (1, 0), (0, -1)]
# quarter turns (clockwise) added to the heading by each move action
MOVE_OFFSET = {
    'MOVE_FORWARD': 0,
    'MOVE_RIGHT': 1,
    'MOVE_BACKWARD': 2,
    'MOVE_LEFT': 3,
}
TURN_OFFSET = {'TURN_LEFT': -1, 'TURN_RIGHT': 1}

ORIENTATIONS = [
    Orientation.FORWARD,
    Orientation.RIGHT,
    Orientation.BACKWARD,
    Orientation.LEFT,
]
ACTIONS = list(Action)
assert len(ACTIONS) == 8 and len(set(Orientation)) == 4


def heading(orientation):
    return HEADING_OF[orientation.name]


def model_blocks(obj):
    """independent statement of which cells block movement"""
    name = type(obj).__name__
    if name in ('Wall', 'Box'):
        return True
    if name == 'Door':
        return obj.state.name != 'OPEN'
    return False


def model_target(y, x, h, action_name):
    if action_name not in MOVE_OFFSET:
        return y, x
    dy, dx = DELTA[(h + MOVE_OFFSET[action_name]) % 4]
    return y + dy, x + dx


def model_move(y, x, h, action_name, height, width, blocked):
    """blocked: callable (y, x) -> bool, only called for in-grid cells"""
    if action_name not in MOVE_OFFSET:
        return y, x, h
    ty, tx = model_target(y, x, h, action_name)
    if 0 <= ty < height and 0 <= tx < width and not blocked(ty, tx):
        return ty, tx, h
    return y, x, h


def model_turn(y, x, h, action_name):
    return y, x, (h + TURN_OFFSET.get(action_name, 0)) % 4


def pose(state):
    return (
        state.agent.position.y,
        state.agent.position.x,
        heading(state.agent.orientation),
    )


# --------------------------------------------------------------------------
# helpers
# --------------------------------------------------------------------------

COLORS = list(Color)

KINDS = (
    [Floor, Wall, MovingObstacle, NoneGridObject, Hidden]
    + [lambda c=c: Exit(c) for c in COLORS]
    + [lambda c=c: Key(c) for c in COLORS]
    + [lambda c=c: Telepod(c) for c in COLORS]
    + [lambda c=c: Beacon(c) for c in COLORS]
    + [lambda s=s, c=c: Door(s, c) for s in Door.Status for c in COLORS]
    + [
        lambda: Box(Floor()),
        lambda: Box(Key(Color.RED)),
        lambda: Box(Wall()),
        lambda: Box(Door(Door.Status.OPEN, Color.BLUE)),
    ]
)

SHAPES = [(h, w) for h in range(1, 5) for w in range(1, 5)] + [(1, 6), (6, 1)]

CHECKS = {}


def count(section, n=1):
    CHECKS[section] = CHECKS.get(section, 0) + n


def rng_state(rng):
    return copy.deepcopy(rng.bit_generator.state)


def cell_ids(grid):
    return [[id(obj) for obj in row] for row in grid.objects]


def make_state(height, width, ay, ax, orientation, kind, held=None):
    """all cells are of `kind`, except the agent's own cell which is Floor"""
    objects = [[kind() for _ in range(width)] for _ in range(height)]
    objects[ay][ax] = Floor()
    return State(Grid(objects), Agent(Position(ay, ax), orientation, held))


# --------------------------------------------------------------------------
# S1 get_next_position
# --------------------------------------------------------------------------


def section_get_next_position():
    for y in range(-3, 8):
        for x in range(-3, 8):
            position = Position(y, x)
            for orientation in ORIENTATIONS:
                for action in ACTIONS:
                    expected = model_target(
                        y, x, heading(orientation), action.name
                    )
                    result = get_next_position(position, orientation, action)
                    assert isinstance(result, Position)
                    assert (result.y, result.x) == expected, (
                        position,
                        orientation,
                        action,
                        result,
                    )
                    # keyword call is part of the public signature
                    result_kw = get_next_position(
                        action=action,
                        orientation=orientation,
                        position=position,
                    )
                    assert result_kw == result
                    # input is never mutated (frozen) and still equal
                    assert (position.y, position.x) == (y, x)
                    if action.name not in MOVE_OFFSET:
                        assert result is position
                    else:
                        # exactly one cell away
                        assert abs(result.y - y) + abs(result.x - x) == 1
                    count('S1')

    # the four move actions from one pose reach four distinct neighbours
    for orientation in ORIENTATIONS:
        targets = {
            get_next_position(Position(0, 0), orientation, action).yx
            for action in ACTIONS
            if action.is_move()
        }
        assert targets == {(-1, 0), (1, 0), (0, -1), (0, 1)}
        count('S1')


# --------------------------------------------------------------------------
# S2 move_agent
# --------------------------------------------------------------------------


def section_move_agent():
    rng = rnd.default_rng(123)
    for height, width in SHAPES:
        for kind in KINDS:
            for ay in range(height):
                for ax in range(width):
                    for orientation in ORIENTATIONS:
                        for action in ACTIONS:
                            state = make_state(
                                height, width, ay, ax, orientation, kind
                            )
                            grid_before = copy.deepcopy(state.grid)
                            ids_before = cell_ids(state.grid)
                            held_before = state.agent.grid_object
                            agent_before = state.agent
                            transform_before = state.agent.transform
                            rng_before = rng_state(rng)

                            expected = model_move(
                                ay,
                                ax,
                                heading(orientation),
                                action.name,
                                height,
                                width,
                                lambda ty, tx: model_blocks(
                                    grid_before.objects[ty][tx]
                                ),
                            )

                            result = tf.move_agent(state, action, rng=rng)

                            assert result is None
                            assert pose(state) == expected, (
                                (height, width),
                                (ay, ax),
                                orientation,
                                action,
                                grid_before.objects,
                                pose(state),
                                expected,
                            )
                            # heading never changes
                            assert state.agent.orientation is orientation
                            # no side effects on grid / held object / rng
                            assert state.grid == grid_before
                            assert cell_ids(state.grid) == ids_before
                            assert state.agent.grid_object is held_before
                            assert state.agent is agent_before
                            assert state.agent.transform is transform_before
                            assert rng_state(rng) == rng_before
                            # consequence: inside grid, not on a blocking cell
                            y, x, _ = pose(state)
                            assert 0 <= y < height and 0 <= x < width
                            assert not state.grid[
                                state.agent.position
                            ].blocks_movement
                            count('S2')

    # displacement happens iff target inside and non-blocking; mixed
    # neighbourhoods: every neighbour of a different kind
    rng2 = rnd.default_rng(7)
    for trial in range(400):
        height, width = 3, 3
        objects = [
            [KINDS[rng2.integers(len(KINDS))]() for _ in range(width)]
            for _ in range(height)
        ]
        objects[1][1] = Floor()
        for orientation in ORIENTATIONS:
            for action in ACTIONS:
                state = State(
                    Grid([list(row) for row in objects]),
                    Agent(Position(1, 1), orientation),
                )
                expected = model_move(
                    1,
                    1,
                    heading(orientation),
                    action.name,
                    height,
                    width,
                    lambda ty, tx: model_blocks(objects[ty][tx]),
                )
                tf.move_agent(state, action)
                assert pose(state) == expected
                count('S2')

    # default rng argument (None) must work and not touch the library rng
    state = make_state(2, 2, 0, 0, Orientation.RIGHT, Floor)
    tf.move_agent(state, Action.MOVE_FORWARD)
    assert pose(state) == (0, 1, 1)
    tf.move_agent(state, Action.MOVE_RIGHT)
    assert pose(state) == (1, 1, 1)
    tf.move_agent(state, Action.MOVE_RIGHT)  # outside
    assert pose(state) == (1, 1, 1)
    tf.move_agent(state, Action.MOVE_BACKWARD)
    assert pose(state) == (1, 0, 1)
    tf.move_agent(state, Action.MOVE_LEFT)
    assert pose(state) == (0, 0, 1)
    count('S2', 5)


# --------------------------------------------------------------------------
# S3 turn_agent
# --------------------------------------------------------------------------


def section_turn_agent():
    rng = rnd.default_rng(5)
    for height, width in [(1, 1), (2, 3), (3, 3)]:
        for kind in KINDS:
            for ay in range(height):
                for ax in range(width):
                    for orientation in ORIENTATIONS:
                        for action in ACTIONS:
                            state = make_state(
                                height, width, ay, ax, orientation, kind
                            )
                            grid_before = copy.deepcopy(state.grid)
                            ids_before = cell_ids(state.grid)
                            rng_before = rng_state(rng)
                            expected = model_turn(
                                ay, ax, heading(orientation), action.name
                            )
                            result = tf.turn_agent(state, action, rng=rng)
                            assert result is None
                            assert pose(state) == expected
                            assert state.agent.position == Position(ay, ax)
                            assert state.grid == grid_before
                            assert cell_ids(state.grid) == ids_before
                            assert rng_state(rng) == rng_before
                            count('S3')

    for orientation in ORIENTATIONS:
        for first, second in [
            (Action.TURN_LEFT, Action.TURN_RIGHT),
            (Action.TURN_RIGHT, Action.TURN_LEFT),
        ]:
            state = make_state(3, 3, 1, 1, orientation, Wall)
            tf.turn_agent(state, first)
            assert state.agent.orientation is not orientation
            tf.turn_agent(state, second)
            assert state.agent.orientation is orientation
            count('S3')
        for action in (Action.TURN_LEFT, Action.TURN_RIGHT):
            state = make_state(3, 3, 1, 1, orientation, Wall)
            seen = []
            for _ in range(4):
                tf.turn_agent(state, action)
                seen.append(state.agent.orientation)
            assert seen[-1] is orientation
            assert len(set(seen)) == 4
            assert state.agent.position == Position(1, 1)
            count('S3')


# --------------------------------------------------------------------------
# S4 other transition functions never change the pose
# --------------------------------------------------------------------------


def section_other_functions():
    rng = rnd.default_rng(99)
    others = [tf.pickndrop, tf.actuate_door, tf.actuate_box, tf.move_obstacles]
    helds = [None, lambda: Key(Color.RED), lambda: Key(Color.BLUE)]
    for height, width in [(1, 1), (1, 2), (2, 2), (3, 3)]:
        for kind in KINDS:
            for ay in range(height):
                for ax in range(width):
                    for orientation in ORIENTATIONS:
                        for action in ACTIONS:
                            for function in others:
                                for held in helds:
                                    state = make_state(
                                        height,
                                        width,
                                        ay,
                                        ax,
                                        orientation,
                                        kind,
                                        None if held is None else held(),
                                    )
                                    before = pose(state)
                                    function(state, action, rng=rng)
                                    assert pose(state) == before
                                    count('S4')

    # teleport: position changes only if standing on a telepod that has a
    # same-coloured partner; heading never changes
    for trial in range(300):
        height, width = int(rng.integers(1, 5)), int(rng.integers(1, 5))
        objects = []
        for _ in range(height):
            row = []
            for _ in range(width):
                r = rng.integers(4)
                if r == 0:
                    row.append(Telepod(Color.RED))
                elif r == 1:
                    row.append(Telepod(Color.BLUE))
                elif r == 2:
                    row.append(Floor())
                else:
                    row.append(Wall())
            objects.append(row)
        for ay in range(height):
            for ax in range(width):
                if model_blocks(objects[ay][ax]):
                    continue
                for orientation in ORIENTATIONS:
                    for action in ACTIONS:
                        state = State(
                            Grid([list(row) for row in objects]),
                            Agent(Position(ay, ax), orientation),
                        )
                        tf.teleport(state, action, rng=rng)
                        y, x, h = pose(state)
                        assert h == heading(orientation)
                        here = objects[ay][ax]
                        partners = [
                            (py, px)
                            for py in range(height)
                            for px in range(width)
                            if (py, px) != (ay, ax)
                            and type(objects[py][px]).__name__ == 'Telepod'
                            and type(here).__name__ == 'Telepod'
                            and objects[py][px].color is here.color
                        ]
                        if partners:
                            assert (y, x) in partners
                        else:
                            assert (y, x) == (ay, ax)
                        count('S4')


# --------------------------------------------------------------------------
# S5 registry / factory / chain
# --------------------------------------------------------------------------


def section_registry():
    names = set(tf.transition_function_registry.keys())
    for name in [
        'chain',
        'move_agent',
        'turn_agent',
        'pickndrop',
        'move_obstacles',
        'actuate_door',
        'actuate_box',
        'teleport',
    ]:
        assert name in names, name
    assert tf.transition_function_registry['move_agent'] is tf.move_agent
    assert tf.transition_function_registry['turn_agent'] is tf.turn_agent
    assert set(tf._action_orientations) == {
        Action.TURN_LEFT,
        Action.TURN_RIGHT,
    }

    move = tf.factory('move_agent')
    turn = tf.factory('turn_agent')
    chain = tf.factory('chain', transition_functions=[move, turn])
    chain_yaml = yf.factory_transition_function(
        {
            'name': 'chain',
            'transition_functions': [
                {'name': 'move_agent'},
                {'name': 'turn_agent'},
            ],
        }
    )
    for function in (chain, chain_yaml):
        for kind in (Floor, Wall, lambda: Door(Door.Status.CLOSED, Color.RED)):
            for orientation in ORIENTATIONS:
                for action in ACTIONS:
                    for ay, ax in [(0, 0), (1, 1), (2, 1), (0, 2)]:
                        state = make_state(3, 3, ay, ax, orientation, kind)
                        blocked = model_blocks(kind())
                        expected = model_turn(
                            *model_move(
                                ay,
                                ax,
                                heading(orientation),
                                action.name,
                                3,
                                3,
                                lambda ty, tx: blocked,
                            ),
                            action.name,
                        )
                        function(state, action, rng=rnd.default_rng(0))
                        assert pose(state) == expected
                        # non-in-place variant leaves the input alone
                        state = make_state(3, 3, ay, ax, orientation, kind)
                        next_state = tf.transition_with_copy(
                            function, state, action, rng=rnd.default_rng(0)
                        )
                        assert pose(next_state) == expected
                        assert pose(state) == (ay, ax, heading(orientation))
                        count('S5')


# --------------------------------------------------------------------------
# S6 rollouts in the shipped configurations
# --------------------------------------------------------------------------

ALL_COLORS = ['RED', 'GREEN', 'BLUE', 'YELLOW']
MT = ['move_agent', 'turn_agent']

# (label, reset function data, transition function names): transcribed from
# the yaml/ directory (PyYAML is not available at runtime)
CONFIGS = [
    ('crossing.5x5', dict(name='crossing', shape=[5, 5], num_rivers=1, object_type='Wall'), MT),
    ('crossing.7x7', dict(name='crossing', shape=[7, 7], num_rivers=2, object_type='Wall'), MT),
    ('dynamic_obstacles.5x5', dict(name='dynamic_obstacles', shape=[5, 5], num_obstacles=1, random_agent=False), MT + ['move_obstacles']),
    ('dynamic_obstacles.7x7', dict(name='dynamic_obstacles', shape=[7, 7], num_obstacles=2, random_agent=False), MT + ['move_obstacles']),
    ('empty.4x4', dict(name='empty', shape=[4, 4], random_agent=True), MT),
    ('empty.8x8', dict(name='empty', shape=[8, 8], random_agent=True), MT),
    ('four_rooms.7x7', dict(name='rooms', shape=[7, 7], layout=[2, 2]), MT),
    ('four_rooms.9x9', dict(name='rooms', shape=[9, 9], layout=[2, 2]), MT),
    ('keydoor.5x5', dict(name='keydoor', shape=[5, 5]), MT + ['actuate_door', 'pickndrop']),
    ('keydoor.7x7', dict(name='keydoor', shape=[7, 7]), MT + ['actuate_door', 'pickndrop']),
    ('keydoor.9x9', dict(name='keydoor', shape=[9, 9]), MT + ['actuate_door', 'pickndrop']),
    ('memory.5x5', dict(name='memory', shape=[5, 5], colors=ALL_COLORS), MT),
    ('memory.9x9', dict(name='memory', shape=[9, 9], colors=ALL_COLORS), MT),
    ('memory_four_rooms.7x7', dict(name='memory_rooms', shape=[7, 7], layout=[2, 2], colors=ALL_COLORS, num_beacons=1, num_exits=2), MT),
    ('memory_four_rooms.9x9', dict(name='memory_rooms', shape=[9, 9], layout=[2, 2], colors=ALL_COLORS, num_beacons=1, num_exits=2), MT),
    ('memory_nine_rooms.10x10', dict(name='memory_rooms', shape=[10, 10], layout=[3, 3], colors=ALL_COLORS, num_beacons=1, num_exits=2), MT),
    ('memory_nine_rooms.13x13', dict(name='memory_rooms', shape=[13, 13], layout=[3, 3], colors=ALL_COLORS, num_beacons=1, num_exits=2), MT),
    ('nine_rooms.10x10', dict(name='rooms', shape=[10, 10], layout=[3, 3]), MT),
    ('nine_rooms.13x13', dict(name='rooms', shape=[13, 13], layout=[3, 3]), MT),
    ('teleport.5x5', dict(name='teleport', shape=[5, 5], random_agent=True), MT + ['teleport']),
    ('teleport.7x7', dict(name='teleport', shape=[7, 7], random_agent=True), MT + ['teleport']),
]
assert len(CONFIGS) == 21


def snapshot_blocked(grid):
    return [[model_blocks(obj) for obj in row] for row in grid.objects]


def check_invariant(state, label):
    y, x, _ = pose(state)
    height, width = len(state.grid.objects), len(state.grid.objects[0])
    assert 0 <= y < height and 0 <= x < width, (label, y, x)
    assert not model_blocks(state.grid.objects[y][x]), (label, y, x)
    assert not state.grid[state.agent.position].blocks_movement
    assert state.grid.area.contains(state.agent.position)


def rollout_per_function(label, reset_data, names, seed, steps):
    """applies the chain one function at a time, checking each one"""
    reset = yf.factory_reset_function(copy.deepcopy(reset_data))
    functions = [
        (name, yf.factory_transition_function({'name': name}))
        for name in names
    ]
    rng = rnd.default_rng(seed)
    action_rng = rnd.default_rng(seed + 10_000)
    state = reset(rng=rng)
    check_invariant(state, label)
    trajectory = [pose(state)]
    height, width = len(state.grid.objects), len(state.grid.objects[0])

    for step in range(steps):
        if step % 40 == 39:
            state = reset(rng=rng)
            check_invariant(state, label)
        action = ACTIONS[int(action_rng.integers(len(ACTIONS)))]
        for name, function in functions:
            before = pose(state)
            blocked = snapshot_blocked(state.grid)
            rng_before = rng_state(rng)
            here = state.grid[state.agent.position]
            function(state, action, rng=rng)
            after = pose(state)
            if name == 'move_agent':
                expected = model_move(
                    *before,
                    action.name,
                    height,
                    width,
                    lambda ty, tx: blocked[ty][tx],
                )
                assert after == expected, (label, step, action, before, after)
                assert rng_state(rng) == rng_before
                assert snapshot_blocked(state.grid) == blocked
            elif name == 'turn_agent':
                assert after == model_turn(*before, action.name)
                assert rng_state(rng) == rng_before
                assert snapshot_blocked(state.grid) == blocked
            elif name == 'teleport':
                assert after[2] == before[2]
                if after[:2] != before[:2]:
                    assert isinstance(here, Telepod)
                    there = state.grid[state.agent.position]
                    assert isinstance(there, Telepod)
                    assert there.color is here.color
            else:
                assert after == before, (label, name, step)
            check_invariant(state, label)
            count('S6')
        trajectory.append(pose(state))
    return trajectory


STANDARD_ENV_PARTS = dict(
    reward_functions=[{'name': 'living_reward', 'reward': -0.05}],
    observation_function={
        'name': 'partially_occluded',
        'area': [[-6, 0], [-3, 3]],
    },
    terminating_function={'name': 'reach_exit'},
)


def rollout_gridworld(label, reset_data, names, seed, steps):
    """steps the GridWorld assembled by the yaml factory from python dicts"""
    objects = [
        'Wall', 'Floor', 'Exit', 'Door', 'Key', 'MovingObstacle', 'Box',
        'Telepod', 'Beacon',
    ]  # fmt: skip
    colors = ['NONE'] + ALL_COLORS
    data = dict(
        state_space={'objects': objects, 'colors': colors},
        observation_space={'objects': objects, 'colors': colors},
        reset_function=copy.deepcopy(reset_data),
        transition_functions=[{'name': name} for name in names],
        **copy.deepcopy(STANDARD_ENV_PARTS),
    )
    env = yf.factory_env_from_data(data)
    env.set_seed(seed)
    action_rng = rnd.default_rng(seed + 20_000)
    state = env.functional_reset()
    trajectory = [pose(state)]
    for step in range(steps):
        check_invariant(state, label)
        height, width = len(state.grid.objects), len(state.grid.objects[0])
        action = ACTIONS[int(action_rng.integers(len(ACTIONS)))]
        before = pose(state)
        blocked = snapshot_blocked(state.grid)
        next_state, _, done = env.functional_step(state, action)
        # functional: the input state is left untouched
        assert pose(state) == before
        assert snapshot_blocked(state.grid) == blocked
        expected = model_turn(
            *model_move(
                *before,
                action.name,
                height,
                width,
                lambda ty, tx: blocked[ty][tx],
            ),
            action.name,
        )
        after = pose(next_state)
        if 'teleport' in names and after != expected:
            assert after[2] == expected[2]
            moved_onto = state.grid.objects[expected[0]][expected[1]]
            arrived_at = next_state.grid.objects[after[0]][after[1]]
            assert isinstance(moved_onto, Telepod)
            assert isinstance(arrived_at, Telepod)
            assert moved_onto.color is arrived_at.color
        else:
            assert after == expected, (label, step, action, before, after)
        count('S6')
        state = env.functional_reset() if done else next_state
        trajectory.append(pose(state))
    return trajectory


def section_rollouts():
    for label, reset_data, names in CONFIGS:
        for seed in range(6):
            first = rollout_per_function(label, reset_data, names, seed, 160)
            if seed == 0:
                # same seed => same trajectory (no hidden random draws)
                again = rollout_per_function(
                    label, reset_data, names, seed, 160
                )
                assert first == again, label
        for seed in range(3):
            first = rollout_gridworld(label, reset_data, names, seed, 120)
            if seed == 0:
                again = rollout_gridworld(label, reset_data, names, seed, 120)
                assert first == again, label


# --------------------------------------------------------------------------
# S7 geometry algebra behind the kinematics
# --------------------------------------------------------------------------


def model_rotate(h, y, x):
    """rotate displacement (y, x) by h clockwise quarter turns"""
    for _ in range(h % 4):
        y, x = x, -y
    return y, x


def section_geometry():
    # enum structure (aliases included)
    assert list(Orientation) == [
        Orientation.FORWARD,
        Orientation.BACKWARD,
        Orientation.LEFT,
        Orientation.RIGHT,
    ]
    assert Orientation.F is Orientation.FORWARD
    assert Orientation.B is Orientation.BACKWARD
    assert Orientation.L is Orientation.LEFT
    assert Orientation.R is Orientation.RIGHT

    by_heading = {heading(o): o for o in ORIENTATIONS}
    assert len(by_heading) == 4

    # composition and inverse
    for a in ORIENTATIONS:
        assert -a is by_heading[(-heading(a)) % 4]
        assert a * -a is Orientation.F and -a * a is Orientation.F
        assert a * Orientation.F is a and Orientation.F * a is a
        count('S7', 4)
        for b in ORIENTATIONS:
            product = a * b
            assert product is by_heading[(heading(a) + heading(b)) % 4]
            assert a.__mul__(b) is product and a.__rmul__(b) is product
            assert b * a is product  # rotations commute
            count('S7')
            for c in ORIENTATIONS:
                assert (a * b) * c is a * (b * c)
                count('S7')
        # in-place operator is the same product, and never mutates
        o = a
        o *= Orientation.R
        assert o is by_heading[(heading(a) + 1) % 4]
        o *= Orientation.L
        assert o is a
        for unsupported in (1, 'x', None, (0, 1), 2.5):
            try:
                a * unsupported
            except TypeError:
                pass
            else:
                assert False, unsupported
            count('S7')

    # cached tables keep their module-level names and full content
    table = geometry._orientation_rotations
    assert isinstance(table, dict) and len(table) == 16
    for (a, b), value in table.items():
        assert value is by_heading[(heading(a) + heading(b)) % 4]
    assert list(table) == [(a, b) for a in ORIENTATIONS for b in ORIENTATIONS]
    neg = geometry._orientation_neg
    assert isinstance(neg, dict) and list(neg) == ORIENTATIONS
    for a, value in neg.items():
        assert value is by_heading[(-heading(a)) % 4]
    deltas = geometry._position_from_orientation
    assert list(deltas) == ORIENTATIONS
    for a, value in deltas.items():
        assert value.yx == DELTA[heading(a)]
    count('S7', 16 + 4 + 4)

    # unit displacement of each heading
    for a in ORIENTATIONS:
        assert Position.from_orientation(a).yx == DELTA[heading(a)]
        # the forward displacement rotated by `a` is the displacement of `a`
        assert (a * Position(-1, 0)).yx == DELTA[heading(a)]
        count('S7', 2)
    for bad in (0, 'FORWARD', None):
        try:
            Position.from_orientation(bad)
        except TypeError:
            pass
        else:
            assert False
        count('S7')

    # rotation of positions
    for a in ORIENTATIONS:
        for y in range(-4, 5):
            for x in range(-4, 5):
                p = Position(y, x)
                rotated = a * p
                assert type(rotated) is Position
                assert rotated.yx == model_rotate(heading(a), y, x)
                assert (p * a) == rotated  # __rmul__
                assert p.yx == (y, x)
                assert (-a * rotated) == p
                for b in ORIENTATIONS:
                    assert b * rotated == (b * a) * p
                count('S7')

    # rotation of areas: bounding box of the rotated corners
    for a in ORIENTATIONS:
        for ymin in range(-2, 3):
            for ymax in range(ymin, 3):
                for xmin in range(-2, 3):
                    for xmax in range(xmin, 3):
                        area = Area((ymin, ymax), (xmin, xmax))
                        rotated = a * area
                        corners = [
                            model_rotate(heading(a), y, x)
                            for y in (ymin, ymax)
                            for x in (xmin, xmax)
                        ]
                        ys = [c[0] for c in corners]
                        xs = [c[1] for c in corners]
                        assert rotated.ys == (min(ys), max(ys))
                        assert rotated.xs == (min(xs), max(xs))
                        count('S7')

    # rigid body transforms (agent pose) and Agent.front
    for a in ORIENTATIONS:
        for ty in range(-2, 4):
            for tx in range(-2, 4):
                t = Transform(Position(ty, tx), a)
                agent = Agent(Position(ty, tx), a)
                dy, dx = DELTA[heading(a)]
                assert agent.front().yx == (ty + dy, tx + dx)
                assert agent.front() == get_next_position(
                    Position(ty, tx), a, Action.MOVE_FORWARD
                )
                inverse = -t
                identity = t * inverse
                assert identity.position == Position(0, 0)
                assert identity.orientation is Orientation.F
                identity = inverse * t
                assert identity.position == Position(0, 0)
                assert identity.orientation is Orientation.F
                for b in ORIENTATIONS:
                    assert t * b is by_heading[(heading(a) + heading(b)) % 4]
                for y in range(-2, 3):
                    for x in range(-2, 3):
                        ry, rx = model_rotate(heading(a), y, x)
                        assert (t * Position(y, x)).yx == (ty + ry, tx + rx)
                        assert inverse * (t * Position(y, x)) == Position(y, x)
                        for b in ORIENTATIONS:
                            u = t * Transform(Position(y, x), b)
                            assert u.position.yx == (ty + ry, tx + rx)
                            assert (
                                u.orientation
                                is by_heading[(heading(a) + heading(b)) % 4]
                            )
                        count('S7')

    # the agent's orientation setter/getter and `*=` through the property
    for a in ORIENTATIONS:
        for b in ORIENTATIONS:
            agent = Agent(Position(2, 3), a)
            transform = agent.transform
            agent.orientation *= b
            assert agent.orientation is by_heading[(heading(a) + heading(b)) % 4]
            assert agent.transform is transform
            assert agent.position == Position(2, 3)
            count('S7')


def main():
    section_get_next_position()
    section_move_agent()
    section_turn_agent()
    section_other_functions()
    section_registry()
    section_rollouts()
    section_geometry()
    for section in sorted(CHECKS):
        print(f'{section}: {CHECKS[section]} cases ok')
    print('C08 demo B: all checks passed')


if __name__ == '__main__':
    main()
