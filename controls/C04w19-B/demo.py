"""Demo for change B (shared helpers in representations/representation.py).

The numeric outer environment must expose exactly the representations of the
inner state and observation (property C04).  This demo compares the grid-object
representation functions with reference implementations embedded below, on
every subset of the registered grid-object types and of the colours, and then
checks whole outer environments against representations assembled cell by cell
from the embedded references, while driving them with reset / step and
arbitrary read patterns.

Runs (and exits 0) both on the pristine tree and with the change applied; it
does not depend on the patch.

Run from the worktree root:  /venv/bin/python _seed/B/demo.py
"""
import copy
import itertools
import os
import sys

# run from the worktree root: make `import gym_gridverse` pick up the worktree
sys.path.insert(0, os.getcwd())

import numpy as np

from gym_gridverse.action import Action
from gym_gridverse.envs import (
    observation_functions as observation_fs,
    reset_functions as reset_fs,
    reward_functions as reward_fs,
    terminating_functions as terminating_fs,
    transition_functions as transition_fs,
)
from gym_gridverse.envs.gridworld import GridWorld
from gym_gridverse.geometry import Area, Shape
from gym_gridverse.grid_object import (
    Beacon,
    Box,
    Color,
    Door,
    Exit,
    Floor,
    Hidden,
    Key,
    MovingObstacle,
    NoneGridObject,
    Telepod,
    Wall,
)
from gym_gridverse.outer_env import OuterEnv
from gym_gridverse.representations import representation as R
from gym_gridverse.representations.observation_representations import (
    make_observation_representation,
)
from gym_gridverse.representations.spaces import Space, SpaceType
from gym_gridverse.representations.state_representations import (
    make_state_representation,
)
from gym_gridverse.spaces import ActionSpace, ObservationSpace, StateSpace

CHECKS = 0


def check(condition, message):
    global CHECKS
    CHECKS += 1
    if not condition:
        print(f'FAILED: {message}')
        sys.exit(1)


# ---------------------------------------------------------------------------
# embedded reference implementations
# ---------------------------------------------------------------------------


def ref_maxima(types, colors):
    return (
        max(t.type_index() for t in types),
        max(t.num_states() for t in types),
        max(c.value for c in colors),
    )


def ref_default_space(types, colors):
    """(lower bound, upper bound) of the default representation"""
    max_type, max_state, max_color = ref_maxima(types, colors)
    upper = np.array([max_type, max_state, max_color])
    return np.zeros_like(upper), upper


def ref_default_convert(obj):
    return np.array([obj.type_index(), obj.state_index, obj.color.value])


def ref_no_overlap_space(types, colors):
    max_type, max_state, max_color = ref_maxima(types, colors)
    upper = np.array(
        [
            max_type,
            max_type + max_state + 1,
            max_type + max_state + max_color + 2,
        ]
    )
    return np.zeros_like(upper), upper


def ref_no_overlap_convert(types, obj):
    max_type = max(t.type_index() for t in types)
    max_state = max(t.num_states() for t in types)
    return np.array(
        [
            obj.type_index(),
            max_type + obj.state_index + 1,
            max_type + max_state + obj.color.value + 2,
        ]
    )


def ref_compact_maps(types, colors, max_type, max_state, max_color):
    type_map = -np.ones((max_type + 1,), int)
    state_map = -np.ones((max_type + 1, max_state + 1), int)
    color_map = -np.ones((max_color + 1,), int)

    types = sorted(types, key=lambda t: t.type_index())
    colors = sorted(colors, key=lambda c: c.value)

    index = 0
    for t in types:
        type_map[t.type_index()] = index
        index += 1
    for t in types:
        for j in range(t.num_states()):
            state_map[t.type_index(), j] = index
            index += 1
    for c in colors:
        color_map[c.value] = index
        index += 1
    return type_map, state_map, color_map


def ref_compact_convert(maps, obj):
    type_map, state_map, color_map = maps
    return np.array(
        [
            type_map[obj.type_index()],
            state_map[obj.type_index(), obj.state_index],
            color_map[obj.color.value],
        ]
    )


# ---------------------------------------------------------------------------
# 1. the grid-object functions, on every subset of types and colours
# ---------------------------------------------------------------------------

ALL_TYPES = [
    NoneGridObject,
    Hidden,
    Floor,
    Wall,
    Exit,
    Door,
    Key,
    MovingObstacle,
    Box,
    Telepod,
    Beacon,
]
ALL_COLORS = list(Color)


def all_objects():
    yield NoneGridObject()
    yield Hidden()
    yield Floor()
    yield Wall()
    yield MovingObstacle()
    yield Box(Floor())
    yield Box(Key(Color.RED))
    for color in Color:
        yield Exit(color)
        yield Key(color)
        yield Telepod(color)
        yield Beacon(color)
        for status in Door.Status:
            yield Door(status, color)


def nonempty_subsets(items):
    for n in range(1, len(items) + 1):
        yield from itertools.combinations(items, n)


def same_array(a, b) -> bool:
    return (
        isinstance(a, np.ndarray)
        and a.dtype == b.dtype
        and a.shape == b.shape
        and np.array_equal(a, b)
    )


def same_space(space, reference, space_type=SpaceType.CATEGORICAL) -> bool:
    lower, upper = reference
    return (
        isinstance(space, Space)
        and space.space_type is space_type
        and same_array(space.lower_bound, lower)
        and same_array(space.upper_bound, upper)
    )


def raises(function, *args, error=ValueError) -> bool:
    try:
        function(*args)
    except error:
        return True
    return False


def check_grid_object_functions():
    objects = list(all_objects())
    color_subsets = list(nonempty_subsets(ALL_COLORS))
    check(len(color_subsets) == 31, 'colour subsets')

    number = 0
    for types in nonempty_subsets(ALL_TYPES):
        number += 1
        types_set = set(types)

        # every colour subset for the small and a sample of the large subsets,
        # otherwise the awkward ones (NONE alone, one colour, all)
        if len(types) <= 2 or number % 37 == 0:
            selected = color_subsets
        else:
            selected = [
                (Color.NONE,),
                (Color.YELLOW,),
                (Color.NONE, Color.GREEN),
                tuple(ALL_COLORS),
            ]

        for colors in selected:
            colors_set = set(colors)
            check(
                same_space(
                    R.default_grid_object_representation_space(
                        types_set, colors_set
                    ),
                    ref_default_space(types, colors),
                ),
                f'default space {types} {colors}',
            )
            check(
                same_space(
                    R.no_overlap_grid_object_representation_space(
                        types_set, colors_set
                    ),
                    ref_no_overlap_space(types, colors),
                ),
                f'no-overlap space {types} {colors}',
            )

        # conversion (also of objects outside of the subset: the formula does
        # not care), with the full, a partial and an empty colour set
        for obj in objects:
            expected = ref_no_overlap_convert(types, obj)
            for colors_set in (set(ALL_COLORS), {Color.NONE}, set()):
                check(
                    same_array(
                        R.no_overlap_grid_object_representation_convert(
                            types_set, colors_set, obj
                        ),
                        expected,
                    ),
                    f'no-overlap convert {types} {obj}',
                )

        # lists (re-iterable, with duplicates) behave like sets
        check(
            same_space(
                R.no_overlap_grid_object_representation_space(
                    list(types) + list(types), [Color.NONE, Color.NONE]
                ),
                ref_no_overlap_space(types, [Color.NONE]),
            ),
            f'no-overlap space from lists {types}',
        )

        # conversion lands inside the space when the object belongs to it
        space = R.no_overlap_grid_object_representation_space(
            types_set, set(ALL_COLORS)
        )
        for obj in objects:
            if type(obj) in types_set:
                array = R.no_overlap_grid_object_representation_convert(
                    types_set, set(ALL_COLORS), obj
                )
                check(space.contains(array), f'{obj} in no-overlap space')
                check(
                    array[0] < array[1] < array[2],
                    f'{obj}: channels do not overlap',
                )

    check(number == 2047, 'type subsets')

    for obj in objects:
        check(
            same_array(
                R.default_grid_object_representation_convert(obj),
                ref_default_convert(obj),
            ),
            f'default convert {obj}',
        )

    # empty collections
    for function in (
        R.default_grid_object_representation_space,
        R.no_overlap_grid_object_representation_space,
    ):
        check(raises(function, set(), {Color.NONE}), 'no types: ValueError')
        check(raises(function, {Floor}, set()), 'no colours: ValueError')
        check(raises(function, set(), set()), 'nothing: ValueError')
    check(
        raises(
            R.no_overlap_grid_object_representation_convert,
            set(),
            {Color.NONE},
            Floor(),
        ),
        'convert without types: ValueError',
    )

    # hard-coded expectations (type indices follow the registration order)
    check(
        [t.type_index() for t in ALL_TYPES] == list(range(11)),
        'type indices',
    )
    keydoor_types = {Wall, Floor, Exit, Door, Key, NoneGridObject}
    keydoor_colors = {Color.NONE, Color.YELLOW}
    space = R.default_grid_object_representation_space(
        keydoor_types, keydoor_colors
    )
    check(space.upper_bound.tolist() == [6, 3, 4], 'default keydoor space')
    check(space.lower_bound.tolist() == [0, 0, 0], 'default keydoor space')
    space = R.no_overlap_grid_object_representation_space(
        keydoor_types, keydoor_colors
    )
    check(space.upper_bound.tolist() == [6, 10, 15], 'no-overlap keydoor space')
    check(space.upper_bound.dtype == np.array([1]).dtype, 'dtype')
    expectations = [
        (NoneGridObject(), [0, 7, 11]),
        (Floor(), [2, 7, 11]),
        (Wall(), [3, 7, 11]),
        (Exit(), [4, 7, 11]),
        (Door(Door.Status.OPEN, Color.YELLOW), [5, 7, 15]),
        (Door(Door.Status.CLOSED, Color.YELLOW), [5, 8, 15]),
        (Door(Door.Status.LOCKED, Color.RED), [5, 9, 12]),
        (Key(Color.YELLOW), [6, 7, 15]),
    ]
    for obj, expected in expectations:
        array = R.no_overlap_grid_object_representation_convert(
            keydoor_types, keydoor_colors, obj
        )
        check(array.tolist() == expected, f'no-overlap keydoor {obj} {array}')
        check(array.dtype == np.array([1]).dtype, 'dtype')

    # singletons: NoneGridObject with colour NONE only
    space = R.no_overlap_grid_object_representation_space(
        {NoneGridObject}, {Color.NONE}
    )
    check(space.upper_bound.tolist() == [0, 2, 3], 'singleton space')
    check(
        R.no_overlap_grid_object_representation_convert(
            {NoneGridObject}, {Color.NONE}, NoneGridObject()
        ).tolist()
        == [0, 1, 3],
        'singleton convert',
    )

    # repeated calls do not depend on each other, arguments are not mutated
    types_set, colors_set = set(keydoor_types), set(keydoor_colors)
    first = R.no_overlap_grid_object_representation_space(types_set, colors_set)
    second = R.no_overlap_grid_object_representation_space(
        types_set, colors_set
    )
    check(first == second and first is not second, 'repeated calls')
    check(first.upper_bound is not second.upper_bound, 'fresh arrays')
    check(
        types_set == keydoor_types and colors_set == keydoor_colors,
        'arguments not mutated',
    )

    print(f'grid-object functions ok ({CHECKS} checks so far)')


# ---------------------------------------------------------------------------
# 2. whole environments: outer == representation of inner, cell by cell
# ---------------------------------------------------------------------------

MOVES = [
    Action.MOVE_FORWARD,
    Action.MOVE_BACKWARD,
    Action.MOVE_LEFT,
    Action.MOVE_RIGHT,
    Action.TURN_LEFT,
    Action.TURN_RIGHT,
]
DEFAULT_AREA = Area((-6, 0), (-3, 3))
MEMORY_COLORS = {Color.RED, Color.GREEN, Color.BLUE, Color.YELLOW}


def make_env(objects, colors, reset, transitions, observation, actions=None):
    reset_name, reset_kwargs = reset
    reset_function = reset_fs.factory(reset_name, **reset_kwargs)
    transition_function = transition_fs.factory(
        'chain',
        transition_functions=[
            transition_fs.factory(name) for name in transitions
        ],
    )
    reward_function = reward_fs.factory(
        'reduce_sum',
        reward_functions=[
            reward_fs.factory('reach_exit', reward_on=5.0, reward_off=0.0),
            reward_fs.factory('living_reward', reward=-0.05),
        ],
    )
    observation_name, observation_area = observation
    observation_function = observation_fs.factory(
        observation_name, area=observation_area
    )
    terminating_function = terminating_fs.factory('reach_exit')

    state = reset_function()
    state_space = StateSpace(state.grid.shape, objects, colors)
    observation = observation_function(state)
    observation_space = ObservationSpace(
        observation.grid.shape, objects, colors
    )
    action_space = ActionSpace(list(Action) if actions is None else actions)

    return GridWorld(
        state_space,
        action_space,
        observation_space,
        reset_function,
        transition_function,
        observation_function,
        reward_function,
        terminating_function,
    )


def configurations():
    # fmt: off
    yield 'empty.4x4', lambda: make_env(
        [Wall, Floor, Exit], [Color.NONE],
        ('empty', dict(shape=Shape(4, 4), random_agent=True)),
        ['move_agent', 'turn_agent'],
        ('partially_occluded', DEFAULT_AREA), MOVES)
    yield 'rooms.7x13.asymmetric_raytracing', lambda: make_env(
        [Wall, Floor, Exit], [Color.NONE],
        ('rooms', dict(shape=Shape(7, 13), layout=(2, 4))),
        ['move_agent', 'turn_agent'],
        ('raytracing', Area((-3, 1), (-1, 3))), MOVES)
    yield 'dynamic_obstacles.6x9.stochastic', lambda: make_env(
        [Wall, Floor, Exit, MovingObstacle], [Color.NONE],
        ('dynamic_obstacles', dict(shape=Shape(6, 9), num_obstacles=4, random_agent=True)),
        ['move_agent', 'turn_agent', 'move_obstacles'],
        ('stochastic_raytracing', DEFAULT_AREA), MOVES)
    yield 'keydoor.5x5', lambda: make_env(
        [Wall, Floor, Exit, Door, Key], [Color.NONE, Color.YELLOW],
        ('keydoor', dict(shape=Shape(5, 5))),
        ['move_agent', 'turn_agent', 'actuate_door', 'pickndrop'],
        ('partially_occluded', DEFAULT_AREA))
    yield 'keydoor.6x11.all_colors.stochastic_asymmetric', lambda: make_env(
        [Key, Door, Exit, Floor, Wall], list(Color),
        ('keydoor', dict(shape=Shape(6, 11))),
        ['move_agent', 'turn_agent', 'actuate_door', 'pickndrop'],
        ('stochastic_raytracing', Area((-4, 2), (-3, 1))))
    yield 'crossing.5x9.single_cell_view', lambda: make_env(
        [Wall, Floor, Exit], [Color.NONE],
        ('crossing', dict(shape=Shape(5, 9), num_rivers=1, object_type=Wall)),
        ['move_agent', 'turn_agent'],
        ('fully_transparent', Area((0, 0), (0, 0))), MOVES)
    yield 'teleport.6x8', lambda: make_env(
        [Wall, Floor, Exit, Telepod], [Color.NONE, Color.RED],
        ('teleport', dict(shape=Shape(6, 8))),
        ['move_agent', 'turn_agent', 'teleport'],
        ('raytracing', Area((-2, 2), (-2, 2))), MOVES)
    yield 'memory.8x5.two_colors', lambda: make_env(
        [Wall, Floor, Exit, Beacon], [Color.NONE, Color.GREEN, Color.BLUE],
        ('memory', dict(shape=Shape(8, 5), colors={Color.GREEN, Color.BLUE})),
        ['move_agent', 'turn_agent'],
        ('raytracing', DEFAULT_AREA), MOVES)
    yield 'memory_rooms.7x10', lambda: make_env(
        [Wall, Floor, Exit, Beacon], list(Color),
        ('memory_rooms', dict(shape=Shape(7, 10), layout=(2, 3), colors=MEMORY_COLORS, num_beacons=2, num_exits=3)),
        ['move_agent', 'turn_agent'],
        ('stochastic_raytracing', Area((-5, 1), (-2, 2))), MOVES)
    # fmt: on


class Reference:
    """cell-by-cell reference of the `grid` and `item` entries"""

    def __init__(self, name, space, hidden: bool):
        self.name = name
        self.types = set(space.object_types) | {NoneGridObject}
        if hidden:
            self.types |= {Hidden}
        self.colors = set(space.colors)
        self.shape = space.grid_shape

        if name == 'compact':
            self.maps = ref_compact_maps(
                self.types,
                self.colors,
                space.max_type_index,
                space.max_state_index,
                space.max_object_color,
            )

    def object_space(self):
        if self.name == 'default':
            return ref_default_space(self.types, self.colors)
        if self.name == 'no-overlap':
            return ref_no_overlap_space(self.types, self.colors)
        upper = np.array([m.max() for m in self.maps])
        return np.zeros_like(upper), upper

    def grid_space(self):
        lower, upper = self.object_space()
        tiling = (self.shape.height, self.shape.width, 1)
        return np.tile(lower, tiling), np.tile(upper, tiling)

    def convert_object(self, obj):
        if self.name == 'default':
            return ref_default_convert(obj)
        if self.name == 'no-overlap':
            return ref_no_overlap_convert(self.types, obj)
        return ref_compact_convert(self.maps, obj)

    def convert_grid(self, grid):
        array = np.zeros((grid.shape.height, grid.shape.width, 3), int)
        for y in range(grid.shape.height):
            for x in range(grid.shape.width):
                array[y, x] = self.convert_object(grid[y, x])
        return array


def check_entry(label, outer_dict, space_dict, reference, grid, item):
    check(
        same_array(outer_dict['grid'], reference.convert_grid(grid)),
        f'{label}: grid',
    )
    check(
        same_array(outer_dict['item'], reference.convert_object(item)),
        f'{label}: item',
    )
    for key, array in outer_dict.items():
        check(space_dict[key].contains(array), f'{label}: {key} in space')


def dicts_equal(a, b) -> bool:
    return a.keys() == b.keys() and all(same_array(a[k], b[k]) for k in a)


def check_environments():
    pattern_rng = np.random.default_rng(99)

    for name, factory in configurations():
        for representation in ['default', 'no-overlap', 'compact']:
            label = f'{name}/{representation}'
            inner = factory()
            twin = factory()  # driven functionally, same seed
            state_representation = make_state_representation(
                representation, inner.state_space
            )
            observation_representation = make_observation_representation(
                representation, inner.observation_space
            )
            outer = OuterEnv(
                inner,
                state_representation=state_representation,
                observation_representation=observation_representation,
            )

            state_reference = Reference(
                representation, inner.state_space, hidden=False
            )
            observation_reference = Reference(
                representation, inner.observation_space, hidden=True
            )

            # spaces
            state_spaces = state_representation.space
            observation_spaces = observation_representation.space
            check(
                same_space(
                    state_spaces['item'], state_reference.object_space()
                ),
                f'{label}: state item space',
            )
            check(
                same_space(state_spaces['grid'], state_reference.grid_space()),
                f'{label}: state grid space',
            )
            check(
                same_space(
                    observation_spaces['item'],
                    observation_reference.object_space(),
                ),
                f'{label}: observation item space',
            )
            check(
                same_space(
                    observation_spaces['grid'],
                    observation_reference.grid_space(),
                ),
                f'{label}: observation grid space',
            )
            check(
                dict_spaces_equal(state_spaces, state_representation.space),
                f'{label}: spaces are stable',
            )

            check(raises(lambda: outer.state, error=RuntimeError), 'no reset')
            check(
                raises(lambda: outer.observation, error=RuntimeError),
                'no reset',
            )

            for seed in [0, 5]:
                inner.set_seed(seed)
                twin.set_seed(seed)
                outer.reset()
                state = twin.functional_reset()
                observation = None
                actions = inner.action_space.actions

                for t in range(30):
                    reads = pattern_rng.integers(0, 3)  # none, one, repeated
                    for r in range(reads):
                        if observation is None:
                            observation = twin.functional_observation(state)
                        numeric = outer.observation
                        check(
                            dicts_equal(
                                numeric,
                                observation_representation.convert(observation),
                            ),
                            f'{label}: outer observation mirrors functional',
                        )
                        check_entry(
                            f'{label} observation',
                            numeric,
                            observation_spaces,
                            observation_reference,
                            observation.grid,
                            observation.agent.grid_object,
                        )
                    if pattern_rng.random() < 0.5:
                        numeric = outer.state
                        check(
                            dicts_equal(
                                numeric, state_representation.convert(state)
                            ),
                            f'{label}: outer state mirrors functional',
                        )
                        check(
                            dicts_equal(numeric, outer.state),
                            f'{label}: repeated state reads',
                        )
                        check_entry(
                            f'{label} state',
                            numeric,
                            state_spaces,
                            state_reference,
                            state.grid,
                            state.agent.grid_object,
                        )

                    if pattern_rng.random() < 0.1:
                        outer.reset()
                        state = twin.functional_reset()
                    else:
                        action = actions[pattern_rng.integers(len(actions))]
                        reward, done = outer.step(action)
                        state, *expected = twin.functional_step(state, action)
                        check([reward, done] == expected, f'{label}: step')
                    observation = None

                check(
                    inner._rng.bit_generator.state
                    == twin._rng.bit_generator.state,
                    f'{label}: same randomness consumed',
                )

    print(f'environments ok ({CHECKS} checks so far)')


def dict_spaces_equal(a, b) -> bool:
    return a.keys() == b.keys() and all(a[k] == b[k] for k in a)


if __name__ == '__main__':
    check_grid_object_functions()
    check_environments()
    print(f'all {CHECKS} checks passed')
