"""Demo for change A (geometry operators of Orientation / Transform).

Checks property C18 (geometry is a consistent algebra of quarter turns and
rigid motions) and compares every product with a reference implementation
embedded here (the historical if-chains) and with hard-coded expectations.

Run from the worktree root:  /venv/bin/python _seed/A/demo.py
Exits 0 on the pristine tree and with the patch applied.
"""
import itertools as itt
import os
import sys

sys.path.insert(0, os.getcwd())

from gym_gridverse.action import Action  # noqa: E402
from gym_gridverse.agent import Agent  # noqa: E402
from gym_gridverse.envs.utils import get_next_position  # noqa: E402
from gym_gridverse.geometry import (  # noqa: E402
    Area,
    Orientation,
    Position,
    Transform,
)
from gym_gridverse.grid import Grid  # noqa: E402
from gym_gridverse.grid_object import (  # noqa: E402
    Color,
    Exit,
    Floor,
    Key,
    Wall,
)

F, R, B, L = Orientation.F, Orientation.R, Orientation.B, Orientation.L
ORIENTATIONS = [F, R, B, L]
checks = 0


def check(condition, message):
    global checks
    checks += 1
    if not condition:
        print('FAIL:', message)
        sys.exit(1)


# ---------------------------------------------------------------------------
# reference implementation (independent of the library code under test)
# ---------------------------------------------------------------------------

QUARTER_TURNS = {F: 0, R: 1, B: 2, L: 3}  # clockwise quarter turns
FROM_TURNS = {v: k for k, v in QUARTER_TURNS.items()}


def ref_orientation_product(a, b):
    return FROM_TURNS[(QUARTER_TURNS[a] + QUARTER_TURNS[b]) % 4]


def ref_rotate_yx(o, y, x):
    if o is F:
        return (y, x)
    if o is B:
        return (-y, -x)
    if o is R:
        return (x, -y)
    if o is L:
        return (-x, y)
    raise AssertionError


def ref_rotate_area(o, ys, xs):
    (ymin, ymax), (xmin, xmax) = ys, xs
    if o is F:
        return ((ymin, ymax), (xmin, xmax))
    if o is B:
        return ((-ymax, -ymin), (-xmax, -xmin))
    if o is R:
        return ((xmin, xmax), (-ymax, -ymin))
    if o is L:
        return ((-xmax, -xmin), (ymin, ymax))
    raise AssertionError


def exact_position(p, yx):
    return (
        type(p) is Position
        and type(p.y) is int
        and type(p.x) is int
        and (p.y, p.x) == yx
    )


def exact_area(a, ys_xs):
    ys, xs = ys_xs
    return (
        type(a) is Area
        and type(a.ys) is tuple
        and type(a.xs) is tuple
        and all(type(v) is int for v in a.ys + a.xs)
        and a.ys == ys
        and a.xs == xs
    )


# ---------------------------------------------------------------------------
# inputs (small exhaustive box + extreme coordinates)
# ---------------------------------------------------------------------------

COORDS = [-(10**30), -(2**63) - 1, -7, -2, -1, 0, 1, 2, 3, 11, 2**31, 10**30]
POSITIONS = [Position(y, x) for y in COORDS for x in COORDS]
SMALL = [Position(y, x) for y in range(-3, 4) for x in range(-3, 4)]

INTERVALS = [
    (0, 0),
    (-1, -1),
    (0, 1),
    (-6, 0),  # asymmetric view-like
    (-3, 3),
    (-2, 5),
    (4, 9),
    (-9, -4),
    (-(10**30), 7),
    (2**63, 2**63 + 2),
]
AREAS = [Area(ys, xs) for ys in INTERVALS for xs in INTERVALS]
SMALL_AREAS = [
    Area(ys, xs)
    for ys in INTERVALS[:8]
    for xs in INTERVALS[:8]
]
TRANSFORMS = [
    Transform(p, o)
    for p in [
        Position(0, 0),
        Position(1, -2),
        Position(-5, 3),
        Position(10**30, -(10**30)),
    ]
    for o in ORIENTATIONS
]
IDENTITY = Transform(Position(0, 0), F)

# ---------------------------------------------------------------------------
# 1. orientations:  cyclic group of quarter turns, FORWARD identity
# ---------------------------------------------------------------------------

EXPECTED_TABLE = {
    (F, F): F, (F, R): R, (F, B): B, (F, L): L,
    (R, F): R, (R, R): B, (R, B): L, (R, L): F,
    (B, F): B, (B, R): L, (B, B): F, (B, L): R,
    (L, F): L, (L, R): F, (L, B): R, (L, L): B,
}  # fmt: skip
for a, b in itt.product(ORIENTATIONS, repeat=2):
    check((a * b) is EXPECTED_TABLE[a, b], f'{a} * {b}')
    check((a * b) is ref_orientation_product(a, b), f'ref {a} * {b}')
    check(a * b is b * a, 'abelian')
    # direct calls of the dunder methods
    check(a.__mul__(b) is EXPECTED_TABLE[a, b], 'direct __mul__')
    check(a.__rmul__(b) is EXPECTED_TABLE[a, b], 'direct __rmul__')
for a in ORIENTATIONS:
    check(F * a is a and a * F is a, 'FORWARD is the identity')
    check(a * -a is F and -a * a is F, 'inverse')
    check(a * a * a * a is F, 'order divides four')
check(R * R is B and R * R * R is L, 'RIGHT generates the group')
check(-F is F and -B is B and -L is R and -R is L, 'negation table')
for a, b, c in itt.product(ORIENTATIONS, repeat=3):
    check((a * b) * c is a * (b * c), 'orientation associativity')

# ---------------------------------------------------------------------------
# 2. orientations act linearly and isometrically on positions
# ---------------------------------------------------------------------------

check(R * Position(2, 5) == Position(5, -2), 'R * (2, 5)')
check(L * Position(2, 5) == Position(-5, 2), 'L * (2, 5)')
check(B * Position(2, 5) == Position(-2, -5), 'B * (2, 5)')
check(F * Position(2, 5) == Position(2, 5), 'F * (2, 5)')
check(R * Position(-1, 0) == Position(0, 1), 'R * front == right')

for o in ORIENTATIONS:
    for p in POSITIONS:
        q = o * p
        check(exact_position(q, ref_rotate_yx(o, p.y, p.x)), f'{o} * {p}')
        # reflected spelling, and dunder methods called directly
        check(exact_position(p * o, (q.y, q.x)), f'{p} * {o}')
        check(o.__mul__(p) == q and o.__rmul__(p) == q, 'direct dunder')
        check(q is not p, 'product is a fresh position')
        # isometry
        check(q.y**2 + q.x**2 == p.y**2 + p.x**2, 'norm preserved')
        check(-o * q == p, 'inverse undoes')
    check(o * Position(0, 0) == Position(0, 0), 'origin fixed')
    check(
        o * Position.from_orientation(F) == Position.from_orientation(o),
        'from_orientation is the image of the front vector',
    )

for o in ORIENTATIONS:
    for p, q in itt.product(SMALL, repeat=2):
        check(o * (p + q) == o * p + o * q, 'additivity')
        check(o * (p - q) == o * p - o * q, 'additivity (difference)')
        check(
            Position.manhattan_distance(o * p, o * q)
            == Position.manhattan_distance(p, q),
            'manhattan isometry',
        )
        check(
            Position.euclidean_distance(o * p, o * q)
            == Position.euclidean_distance(p, q),
            'euclidean isometry',
        )
    for p in SMALL:
        check(o * -p == -(o * p), 'homogeneity')

for a, b in itt.product(ORIENTATIONS, repeat=2):
    for p in POSITIONS[::7] + SMALL:
        check((a * b) * p == a * (b * p), 'action is a group action')

# ---------------------------------------------------------------------------
# 3. areas:  transforming an area transforms exactly its set of positions
# ---------------------------------------------------------------------------

check(R * Area((-6, 0), (-3, 3)) == Area((-3, 3), (0, 6)), 'R * view')
check(L * Area((-6, 0), (-3, 3)) == Area((-3, 3), (-6, 0)), 'L * view')
check(B * Area((-6, 0), (-2, 3)) == Area((0, 6), (-3, 2)), 'B * view')
check(F * Area((-6, 0), (-2, 3)) == Area((-6, 0), (-2, 3)), 'F * view')

for o in ORIENTATIONS:
    for area in AREAS:
        rotated = o * area
        check(
            exact_area(rotated, ref_rotate_area(o, area.ys, area.xs)),
            f'{o} * {area}',
        )
        check(exact_area(area * o, (rotated.ys, rotated.xs)), 'reflected')
        check(o.__mul__(area) == rotated, 'direct __mul__')
        check(o.__rmul__(area) == rotated, 'direct __rmul__')
        check(-o * rotated == area, 'inverse undoes')
        check(
            (rotated.height, rotated.width)
            == (
                (area.height, area.width)
                if o in (F, B)
                else (area.width, area.height)
            ),
            'shape of rotated area',
        )
        check(hash(rotated) == hash(Area(rotated.ys, rotated.xs)), 'hash')
    for area in SMALL_AREAS:
        check(
            set((o * area).positions()) == {o * p for p in area.positions()},
            'rotated area == rotated positions',
        )
        check(
            set((o * area).positions('border'))
            == {o * p for p in area.positions('border')},
            'rotated border',
        )

for t in TRANSFORMS:
    for area in SMALL_AREAS:
        moved = t * area
        check(type(moved) is Area, 'type of transformed area')
        check(
            set(moved.positions()) == {t * p for p in area.positions()},
            'transformed area == transformed positions',
        )
        check(area * t == moved, 'reflected transform product')
        check(t.position + t.orientation * area == moved, 'definition')
        check(-t * moved == area, 'inverse transform undoes')
    for area in AREAS:
        ys, xs = ref_rotate_area(t.orientation, area.ys, area.xs)
        expected = (
            (t.position.y + ys[0], t.position.y + ys[1]),
            (t.position.x + xs[0], t.position.x + xs[1]),
        )
        check(exact_area(t * area, expected), f'{t} * {area}')

# ---------------------------------------------------------------------------
# 4. transforms:  associative composition, identity, inverses, action
# ---------------------------------------------------------------------------

check(
    Transform(Position(1, -2), R) * Position(3, 4) == Position(5, -5),
    'hard-coded transform * position',
)
check(
    Transform(Position(1, -2), R) * Transform(Position(3, 4), L)
    == Transform(Position(5, -5), F),
    'hard-coded transform * transform',
)
check(
    -Transform(Position(1, -2), R) == Transform(Position(-2, -1), L),
    'hard-coded inverse',
)

for t in TRANSFORMS:
    check(t * IDENTITY == t and IDENTITY * t == t, 'identity')
    check(t * -t == IDENTITY and -t * t == IDENTITY, 'inverse')
    check(-(-t) == t, 'double inverse')
    for o in ORIENTATIONS:
        check(t * o is t.orientation * o, 'transform * orientation')
        check(o * t is t.orientation * o, 'orientation * transform')
        check(t.__rmul__(o) is t.orientation * o, 'direct __rmul__')
    for p in SMALL + POSITIONS[::11]:
        y, x = ref_rotate_yx(t.orientation, p.y, p.x)
        expected = (t.position.y + y, t.position.x + x)
        check(exact_position(t * p, expected), f'{t} * {p}')
        check(exact_position(p * t, expected), f'{p} * {t}')
        check(t.__rmul__(p) == t * p, 'direct __rmul__ (position)')
        check(-t * (t * p) == p, 'inverse action')
    check(hash(t) == hash(Transform(t.position, t.orientation)), 'hash')

for s, t in itt.product(TRANSFORMS, repeat=2):
    st = s * t
    check(type(st) is Transform, 'type of composed transform')
    check(
        st
        == Transform(
            s.position + s.orientation * t.position,
            s.orientation * t.orientation,
        ),
        'definition of composition',
    )
    check(s.__rmul__(t) == s * t, 'direct __rmul__ (transform)')
    check(-(st) == -t * -s, 'inverse of a product')
    for p in SMALL[::3]:
        check(st * p == s * (t * p), 'composed action == successive action')
    for area in SMALL_AREAS[::5]:
        check(st * area == s * (t * area), 'composed action on areas')
    for o in ORIENTATIONS:
        check(st * o is s * (t * o), 'composed action on orientations')
for s, t, u in itt.product(TRANSFORMS[::3], TRANSFORMS, TRANSFORMS[1::3]):
    check((s * t) * u == s * (t * u), 'transform associativity')

# ---------------------------------------------------------------------------
# 5. foreign operands
# ---------------------------------------------------------------------------

FOREIGN = [3, 2.5, 'F', None, (1, 2), [1, 2], object()]
for o in ORIENTATIONS:
    for foreign in FOREIGN:
        check(o.__mul__(foreign) is NotImplemented, 'NotImplemented kept')
        check(o.__rmul__(foreign) is NotImplemented, 'NotImplemented kept')
    check(
        o.__mul__(IDENTITY) is NotImplemented
        and o.__rmul__(IDENTITY) is NotImplemented,
        'orientation defers to Transform',
    )
for foreign in FOREIGN:
    check(IDENTITY.__mul__(foreign) is NotImplemented, 'NotImplemented kept')
    check(IDENTITY.__rmul__(foreign) is NotImplemented, 'NotImplemented kept')
for left, right in [
    (R, 3),
    (3.0, R),
    (R, None),
    (IDENTITY, 3),
    (None, IDENTITY),
    (Position(1, 2), Position(1, 2)),
    (Area((0, 1), (0, 1)), Position(1, 2)),
]:
    try:
        left * right
    except TypeError:
        check(True, 'TypeError')
    else:
        check(False, f'{left!r} * {right!r} should raise TypeError')
# sequences keep their own semantics
check([1] * 2 == [1, 1], 'sanity')
for left, right in [(R, [1]), ([1], R), ('a', IDENTITY)]:
    try:
        left * right
    except TypeError:
        check(True, 'TypeError')
    else:
        check(False, f'{left!r} * {right!r} should raise TypeError')

# ---------------------------------------------------------------------------
# 6. grids:  rotation rearranges but preserves objects, inverse undoes
# ---------------------------------------------------------------------------


def make_grid(height, width):
    palette = [
        Floor,
        Wall,
        Exit,
        lambda: Key(Color.NONE),
        lambda: Key(Color.RED),
        lambda: Key(Color.BLUE),
    ]
    return Grid(
        [
            [palette[(3 * y + 5 * x + y * x) % len(palette)]() for x in range(width)]
            for y in range(height)
        ]
    )


SHAPES = [(1, 1), (1, 5), (5, 1), (2, 3), (3, 2), (3, 3), (4, 7), (7, 4)]
for height, width in SHAPES:
    grid = make_grid(height, width)
    before = [[grid[y, x] for x in range(width)] for y in range(height)]
    for o in ORIENTATIONS:
        rotated = grid * o
        rotated_reflected = o * grid
        check(rotated == rotated_reflected, 'reflected grid product')
        expected_shape = (
            (height, width) if o in (F, B) else (width, height)
        )
        check(rotated.shape.as_tuple == expected_shape, 'rotated shape')
        check(rotated.area == Area((0, expected_shape[0] - 1), (0, expected_shape[1] - 1)), 'rotated area')
        # same objects (identity), rearranged according to the pose algebra
        ids = sorted(id(rotated[p]) for p in rotated.area.positions())
        check(
            ids == sorted(id(grid[p]) for p in grid.area.positions()),
            'objects preserved',
        )
        image = -o * grid.area
        shift = Position(-image.ymin, -image.xmin)
        for p in grid.area.positions():
            check(
                rotated[shift + -o * p] is grid[p],
                'object lands at the rotated position',
            )
        check(rotated * -o == grid, 'inverse rotation undoes')
        check(-o * (o * grid) == grid, 'inverse rotation undoes (reflected)')
        for o2 in ORIENTATIONS:
            check((grid * o) * o2 == grid * (o * o2), 'grid action')
        # the original grid is untouched
        check(
            all(
                grid[y, x] is before[y][x]
                for y in range(height)
                for x in range(width)
            ),
            'original grid untouched',
        )
    check(grid * F == grid, 'FORWARD leaves the grid alone')

abc = Grid(
    [
        [Wall(), Exit(), Key(Color.RED)],
        [Key(Color.NONE), Floor(), Key(Color.BLUE)],
    ]
)
check(
    R * abc
    == Grid(
        [
            [Key(Color.RED), Key(Color.BLUE)],
            [Exit(), Floor()],
            [Wall(), Key(Color.NONE)],
        ]
    ),
    'hard-coded grid rotation',
)

# ---------------------------------------------------------------------------
# 7. tentative next position agrees with the pose algebra
# ---------------------------------------------------------------------------

MOVES = {
    Action.MOVE_FORWARD: F,
    Action.MOVE_LEFT: L,
    Action.MOVE_RIGHT: R,
    Action.MOVE_BACKWARD: B,
}
check(
    get_next_position(Position(3, 3), R, Action.MOVE_LEFT) == Position(2, 3),
    'hard-coded next position',
)
check(
    get_next_position(Position(0, 0), B, Action.MOVE_RIGHT) == Position(0, -1),
    'hard-coded next position (corner, leaves the grid)',
)
for o in ORIENTATIONS:
    for p in SMALL + POSITIONS[::13]:
        pose = Transform(p, o)
        for action in Action:
            nxt = get_next_position(p, o, action)
            if action in MOVES:
                step = Position.from_orientation(MOVES[action])
                check(nxt == pose * step, 'next position == pose * step')
                check(
                    nxt == p + Position.from_orientation(o * MOVES[action]),
                    'next position, definition',
                )
                check(Position.manhattan_distance(nxt, p) == 1, 'one step')
            else:
                check(nxt == p, 'non-movement actions stay put')
        agent = Agent(p, o)
        check(
            agent.front() == get_next_position(p, o, Action.MOVE_FORWARD),
            'front of the agent',
        )
        check(agent.front() == pose * Position(-1, 0), 'front, pose algebra')

print(f'OK ({checks} checks)')
