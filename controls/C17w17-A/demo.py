"""Demo for change A (YAML layer: reserved-key table + shared component helper).

Run from the worktree root:  /venv/bin/python _seed/A/demo.py

Checks (on the pristine tree and with the patch applied alike):

* every shipped configuration (yaml/, gym_gridverse/registered_envs/,
  examples/coin_env.yaml) builds, through `factory_env_from_data`, an
  environment that behaves exactly like
    - a reference build (a verbatim copy of the if-chain implementation,
      embedded below), and
    - a hand assembly which bypasses every `factory(name, **kwargs)` and
      binds the registered functions directly;
  building leaves the input data unchanged and is repeatable;
* `process_reserved_keys` converts exactly like the embedded reference, key by
  key and in combination, in place, same key order, same partial result on
  errors;
* unknown names, missing parameters and malformed shapes / colours / actions
  are rejected with SchemaError / ValueError.
"""
import copy
import functools
import glob
import inspect
import os
import random
import re
import sys
import types

ROOT = os.getcwd()
sys.path.insert(0, ROOT)
sys.path.insert(0, os.path.join(ROOT, 'examples'))  # for `coin_env:...`

try:
    import yaml as _real_yaml  # noqa: F401

    if not hasattr(_real_yaml, 'safe_load'):
        # not PyYAML: the `yaml/` directory of the repository, picked up as a
        # namespace package
        raise ImportError('yaml')
except ImportError:  # the yaml layer only needs `yaml` to read files
    _real_yaml = None
    _stub = types.ModuleType('yaml')

    def _no_yaml(*args, **kwargs):
        raise RuntimeError('yaml is not installed')

    _stub.safe_load = _no_yaml
    sys.modules['yaml'] = _stub

from schema import SchemaError  # noqa: E402

from gym_gridverse.action import Action  # noqa: E402
from gym_gridverse.envs import (  # noqa: E402
    observation_functions as observation_fs,
    reset_functions as reset_fs,
    reward_functions as reward_fs,
    terminating_functions as terminating_fs,
    transition_functions as transition_fs,
    visibility_functions as visibility_fs,
)
from gym_gridverse.envs.gridworld import GridWorld  # noqa: E402
from gym_gridverse.envs.yaml import factory as yf  # noqa: E402
from gym_gridverse.envs.yaml.schemas import schemas  # noqa: E402
from gym_gridverse.geometry import (  # noqa: E402
    Area,
    Shape,
    distance_function_factory,
)
from gym_gridverse.grid_object import (  # noqa: E402
    Color,
    Exit,
    Key,
    Wall,
    grid_object_registry,
)
from gym_gridverse.rng import reset_gv_rng  # noqa: E402
from gym_gridverse.spaces import ActionSpace  # noqa: E402
from gym_gridverse.utils.custom import import_if_custom  # noqa: E402
from gym_gridverse.utils.space_builders import (  # noqa: E402
    ObservationSpaceBuilder,
    StateSpaceBuilder,
)

CHECKS = 0


def check(condition, message):
    global CHECKS
    CHECKS += 1
    if not condition:
        raise AssertionError(message)


# --------------------------------------------------------------------------
# a loader for the YAML subset the shipped configurations use
# --------------------------------------------------------------------------


def _scalar(text):
    text = text.strip()
    if text.startswith('['):
        value, rest = _flow(text)
        assert not rest.strip(), text
        return value
    if re.fullmatch(r'[-+]?\d+', text):
        return int(text)
    if re.fullmatch(r'[-+]?(\d+\.\d*|\.\d+)([eE][-+]?\d+)?', text):
        return float(text)
    if text in ('True', 'true'):
        return True
    if text in ('False', 'false'):
        return False
    if len(text) >= 2 and text[0] == text[-1] and text[0] in '\'"':
        return text[1:-1]
    return text


def _flow(text):
    """parses a flow sequence at the start of text, returns (list, rest)"""
    assert text[0] == '['
    text = text[1:]
    items = []
    while True:
        text = text.lstrip()
        if text.startswith(']'):
            return items, text[1:]
        if text.startswith('['):
            item, text = _flow(text)
        else:
            match = re.match(r'[^,\]]*', text)
            item, text = _scalar(match.group(0)), text[match.end() :]
        items.append(item)
        text = text.lstrip()
        if text.startswith(','):
            text = text[1:]


def _split_key(content):
    match = re.match(r'([^\s:][^:]*?):(?:\s+(.*))?$', content)
    return (match.group(1), match.group(2)) if match else None


def _block(lines, i, indent):
    """parses the block starting at lines[i] (of the given indent)"""
    if lines[i][1].startswith('- '):
        items = []
        while (
            i < len(lines)
            and lines[i][0] == indent
            and lines[i][1].startswith('- ')
        ):
            content = lines[i][1][2:].lstrip()
            shift = len(lines[i][1]) - len(content)
            if _split_key(content) is not None:
                lines[i] = (indent + shift, content)
                item, i = _block(lines, i, indent + shift)
            else:
                item, i = _scalar(content), i + 1
            items.append(item)
        return items, i

    mapping = {}
    while i < len(lines) and lines[i][0] == indent:
        key, value = _split_key(lines[i][1])
        i += 1
        if value is not None and value.strip():
            mapping[key] = _scalar(value)
        else:
            child_indent = lines[i][0]
            assert child_indent > indent or (
                child_indent == indent and lines[i][1].startswith('- ')
            )
            mapping[key], i = _block(lines, i, child_indent)
    return mapping, i


def mini_yaml_load(text):
    lines = []
    for raw in text.splitlines():
        raw = re.sub(r'(^|\s)#.*$', '', raw).rstrip()
        if raw.strip() and raw.strip() != '---':
            lines.append((len(raw) - len(raw.lstrip()), raw.strip()))
    data, i = _block(lines, 0, lines[0][0])
    assert i == len(lines), (i, len(lines))
    return data


def load_config(path):
    with open(path) as f:
        text = f.read()
    data = mini_yaml_load(text)
    if _real_yaml is not None:
        check(data == _real_yaml.safe_load(text), f'mini loader differs {path}')
    return data


# --------------------------------------------------------------------------
# reference implementation: the if-chain, verbatim, over the public pieces
# --------------------------------------------------------------------------

MODULES = {
    'reset_function': reset_fs,
    'transition_function': transition_fs,
    'reward_function': reward_fs,
    'visibility_function': visibility_fs,
    'observation_function': observation_fs,
    'terminating_function': terminating_fs,
}
REGISTRIES = {
    'reset_function': reset_fs.reset_function_registry,
    'transition_function': transition_fs.transition_function_registry,
    'reward_function': reward_fs.reward_function_registry,
    'visibility_function': visibility_fs.visibility_function_registry,
    'observation_function': observation_fs.observation_function_registry,
    'terminating_function': terminating_fs.terminating_function_registry,
}


def via_module_factory(kind, name, kwargs):
    return MODULES[kind].factory(name, **kwargs)


def via_direct_binding(kind, name, kwargs):
    """binds the registered function by hand, ignoring foreign parameters"""
    name = import_if_custom(name)
    try:
        function = REGISTRIES[kind][name]
    except KeyError:
        raise ValueError(f'unknown {kind} {name}')
    accepted = {}
    parameters = inspect.signature(function).parameters
    protocol = {
        'reset_function': [],
        'transition_function': list(parameters)[:2],
        'reward_function': list(parameters)[:3],
        'terminating_function': list(parameters)[:3],
        'observation_function': list(parameters)[:1],
        'visibility_function': list(parameters)[:2],
    }[kind] + ['rng']
    for key, parameter in parameters.items():
        if key in protocol:
            continue
        if key in kwargs:
            accepted[key] = kwargs[key]
        elif parameter.default is inspect.Parameter.empty:
            raise ValueError(f'missing {key}')
    return functools.partial(function, **accepted)


class Reference:
    def __init__(self, bind):
        self.bind = bind

    def process_reserved_keys(self, data):
        if 'transition_functions' in data:
            data['transition_functions'] = [
                self.component('transition_function', d)
                for d in data['transition_functions']
            ]

        if 'reward_functions' in data:
            data['reward_functions'] = [
                self.component('reward_function', d)
                for d in data['reward_functions']
            ]

        if 'terminating_functions' in data:
            data['terminating_functions'] = [
                self.component('terminating_function', d)
                for d in data['terminating_functions']
            ]

        if 'reward_function' in data:
            data['reward_function'] = self.component(
                'reward_function', data['reward_function']
            )

        if 'distance_function' in data:
            data['distance_function'] = distance_function_factory(
                schemas['distance_function'].validate(data['distance_function'])
            )

        if 'visibility_function' in data:
            data['visibility_function'] = self.component(
                'visibility_function', data['visibility_function']
            )

        if 'shape' in data:
            data['shape'] = Shape(*data['shape'])

        if 'layout' in data:
            data['layout'] = tuple(data['layout'])

        if 'area' in data:
            data['area'] = Area(*data['area'])

        if 'object_type' in data:
            data['object_type'] = grid_object_registry.from_name(
                data['object_type']
            )

        if 'colors' in data:
            data['colors'] = set(
                Color[name] for name in schemas['colors'].validate(data['colors'])
            )

    def component(self, kind, data):
        data = schemas[kind].validate(data)

        name = data.pop('name')
        self.process_reserved_keys(data)
        return self.bind(kind, name, data)

    def object_types(self, data):
        data = schemas['object_types'].validate(data)
        return [
            grid_object_registry.from_name(
                import_if_custom(schemas['object_type'].validate(d))
            )
            for d in data
        ]

    def colors(self, data):
        return [Color[name] for name in schemas['colors'].validate(data)]

    def env(self, data):
        data = schemas['env'].validate(data)

        state_space = schemas['state_space'].validate(data['state_space'])
        state_space_builder = StateSpaceBuilder()
        state_space_builder.set_object_types(
            self.object_types(state_space['objects'])
        )
        state_space_builder.set_colors(self.colors(state_space['colors']))

        action_space = (
            ActionSpace(
                [
                    Action[name]
                    for name in schemas['action_space'].validate(
                        data['action_space']
                    )
                ]
            )
            if 'action_space' in data
            else ActionSpace(list(Action))
        )

        observation_space = schemas['observation_space'].validate(
            data['observation_space']
        )
        observation_space_builder = ObservationSpaceBuilder()
        observation_space_builder.set_object_types(
            self.object_types(observation_space['objects'])
        )
        observation_space_builder.set_colors(
            self.colors(observation_space['colors'])
        )

        reset_function = self.component('reset_function', data['reset_function'])
        transition_function = self.component(
            'transition_function',
            {
                'name': 'chain',
                'transition_functions': data['transition_functions'],
            },
        )
        reward_function = self.component(
            'reward_function',
            {'name': 'reduce_sum', 'reward_functions': data['reward_functions']},
        )
        observation_function = self.component(
            'observation_function', data['observation_function']
        )
        terminating_function = self.component(
            'terminating_function', data['terminating_function']
        )

        state = reset_function()
        state_space_builder.set_grid_shape(state.grid.shape)
        observation = observation_function(state)
        observation_space_builder.set_grid_shape(observation.grid.shape)

        return GridWorld(
            state_space_builder.build(),
            action_space,
            observation_space_builder.build(),
            reset_function,
            transition_function,
            observation_function,
            reward_function,
            terminating_function,
        )


REFERENCE = Reference(via_module_factory)
BY_HAND = Reference(via_direct_binding)

# --------------------------------------------------------------------------
# comparing environments
# --------------------------------------------------------------------------


def same_spaces(env_a, env_b, label):
    for space in ('state_space', 'observation_space'):
        a, b = getattr(env_a, space), getattr(env_b, space)
        check(a.grid_shape == b.grid_shape, f'{label}: {space} shape')
        check(a.object_types == b.object_types, f'{label}: {space} objects')
        check(a.colors == b.colors, f'{label}: {space} colors')
    check(
        list(env_a.action_space.actions) == list(env_b.action_space.actions),
        f'{label}: action space',
    )


def trajectory(env, seed, num_steps):
    """a full record of what the environment does under a fixed action tape"""
    tape = random.Random(1000 + seed)
    env.set_seed(seed)
    env.reset()
    record = [(repr(env.state), env.state, repr(env.observation), env.observation)]
    for _ in range(num_steps):
        action = tape.choice(list(env.action_space.actions))
        reward, done = env.step(action)
        record.append(
            (
                action,
                reward,
                done,
                repr(env.state),
                env.state,
                repr(env.observation),
                env.observation,
            )
        )
        if done:
            env.reset()
            record.append((repr(env.state), env.state))
    return record


def config_paths():
    paths = sorted(glob.glob(os.path.join(ROOT, 'yaml', '*.yaml')))
    paths += sorted(
        glob.glob(
            os.path.join(ROOT, 'gym_gridverse', 'registered_envs', '*.yaml')
        )
    )
    paths += sorted(glob.glob(os.path.join(ROOT, 'examples', '*.yaml')))
    return paths


def build(builder, data, seed=0):
    reset_gv_rng(seed)  # the probing reset of the build uses the library rng
    return builder(data)


def check_shipped_configurations():
    paths = config_paths()
    check(len(paths) >= 43, f'expected the shipped files, got {len(paths)}')

    for path in paths:
        label = os.path.relpath(path, ROOT)
        twin = os.path.join(
            ROOT, 'gym_gridverse', 'registered_envs', os.path.basename(path)
        )
        if os.path.dirname(path) == os.path.join(ROOT, 'yaml'):
            with open(path, 'rb') as f, open(twin, 'rb') as g:
                check(f.read() == g.read(), f'{label}: packaged copy differs')

        data = load_config(path)
        pristine_data = copy.deepcopy(data)

        env = build(yf.factory_env_from_data, data)
        check(data == pristine_data, f'{label}: input data was modified')
        env_again = build(yf.factory_env_from_data, data)
        check(data == pristine_data, f'{label}: input data was modified (2)')
        env_reference = build(REFERENCE.env, copy.deepcopy(data))
        env_by_hand = build(BY_HAND.env, copy.deepcopy(data))

        check(isinstance(env, GridWorld), f'{label}: not a GridWorld')
        for other, what in (
            (env_again, 'rebuild'),
            (env_reference, 'reference'),
            (env_by_hand, 'by hand'),
        ):
            same_spaces(env, other, f'{label} vs {what}')

        # registered files are the same as yaml/ files: fewer seeds there
        seeds = (0, 3) if 'registered_envs' in path else (0, 1, 12345)
        for seed in seeds:
            expected = trajectory(env_reference, seed, 30)
            check(
                trajectory(env, seed, 30) == expected,
                f'{label}: differs from reference, seed {seed}',
            )
            check(
                trajectory(env_by_hand, seed, 30) == expected,
                f'{label}: reference differs from hand assembly, seed {seed}',
            )
            check(
                trajectory(env_again, seed, 30) == expected,
                f'{label}: rebuild differs, seed {seed}',
            )
        # re-seeding the same environment replays the same trajectory
        check(
            trajectory(env, seeds[0], 30)
            == trajectory(env_reference, seeds[0], 30),
            f'{label}: re-seeding',
        )


# --------------------------------------------------------------------------
# process_reserved_keys, key by key
# --------------------------------------------------------------------------


def partial_signature(value):
    """a comparable description of a converted value"""
    if isinstance(value, functools.partial):
        return (
            'partial',
            value.func,
            value.args,
            [(k, partial_signature(v)) for k, v in value.keywords.items()],
        )
    if isinstance(value, list):
        return ['list'] + [partial_signature(v) for v in value]
    if isinstance(value, (Shape, Area)):
        return (type(value).__name__, repr(value), value)
    return (type(value).__name__, value)


def converted(function, data):
    """runs an in-place conversion, returns (outcome, items after the call)"""
    data = copy.deepcopy(data)
    try:
        outcome = ('returned', function(data))
    except Exception as error:  # pylint: disable=broad-except
        outcome = ('raised', type(error).__name__)
    return outcome, [(k, partial_signature(v)) for k, v in data.items()]


RESERVED_CASES = [
    {},
    {'unrelated': [1, 2], 'reward': 1.5},
    {'shape': [5, 7]},
    {'shape': [1, 1]},
    {'shape': (13, 4)},
    {'layout': [2, 3]},
    {'layout': (1, 1)},
    {'layout': []},
    {'area': [[-6, 0], [-3, 3]]},
    {'area': [[0, 0], [0, 0]]},
    {'area': [[-1, 4], [-7, 2]]},
    {'area': [[3, -3], [5, -5]]},  # decreasing bounds: ValueError
    {'object_type': 'Wall'},
    {'object_type': 'Key'},
    {'object_type': 'Exit'},
    {'colors': ['NONE']},
    {'colors': ['RED', 'NONE', 'BLUE']},
    {'distance_function': 'manhattan'},
    {'distance_function': 'euclidean'},
    {'reward_function': {'name': 'living_reward', 'reward': -0.5}},
    {'reward_function': {'name': 'living_reward', 'reward': 0.0, 'junk': 3}},
    {'visibility_function': {'name': 'fully_transparent'}},
    {'visibility_function': {'name': 'raytracing'}},
    {'transition_functions': []},
    {'transition_functions': [{'name': 'move_agent'}]},
    {
        'transition_functions': [
            {'name': 'turn_agent'},
            {'name': 'move_agent'},
            {'name': 'turn_agent'},
        ]
    },
    {
        'reward_functions': [
            {'name': 'living_reward', 'reward': 1.0},
            {
                'name': 'getting_closer',
                'object_type': 'Exit',
                'distance_function': 'manhattan',
            },
            {
                'name': 'reduce_sum',
                'reward_functions': [
                    {'name': 'reach_exit'},
                    {'name': 'overlap', 'object_type': 'Key'},
                ],
            },
        ]
    },
    {
        'terminating_functions': [
            {'name': 'reach_exit'},
            {
                'name': 'reduce_any',
                'terminating_functions': [
                    {'name': 'bump_into_wall'},
                    {'name': 'overlap', 'object_type': 'Exit'},
                ],
            },
        ]
    },
    # everything at once, keys in an order unlike the order of processing
    {
        'colors': ['GREEN'],
        'zzz': None,
        'object_type': 'Door',
        'area': [[0, 1], [2, 3]],
        'layout': [3, 2],
        'shape': [9, 11],
        'visibility_function': {'name': 'partially_occluded'},
        'distance_function': 'euclidean',
        'reward_function': {'name': 'reach_exit', 'reward_on': 2.0},
        'terminating_functions': [{'name': 'reach_exit'}],
        'reward_functions': [{'name': 'bump_into_wall'}],
        'transition_functions': [{'name': 'pickndrop'}],
    },
    # failures: the partial result and the error must be the same
    {'shape': [5], 'colors': ['PINK']},
    {'colors': ['PINK'], 'shape': [5, 5]},
    {'colors': [], 'area': [[0, 0], [0, 0]]},
    {'colors': ['RED', 'RED']},
    {'area': [1, 2], 'layout': [4, 4]},
    {'area': [[0, 0]], 'layout': [4, 4]},
    {'object_type': 'Unicorn', 'layout': [2, 2], 'colors': ['RED']},
    {'object_type': 'coin_env:Coin'},  # no custom import for this key
    {'object_type': 'gym_gridverse.grid_object:Wall'},
    {'distance_function': 'chebyshev', 'shape': [3, 3]},
    {'shape': [3, 3], 'distance_function': 'chebyshev'},
    {'reward_function': {'name': 'nope'}, 'shape': [3, 3]},
    {'reward_function': {'reward': 1.0}},
    {'reward_function': 'living_reward'},
    {'reward_function': {'name': 'overlap'}, 'colors': ['RED']},
    {'visibility_function': {'name': 'nope'}},
    {'transition_functions': [{'name': 'move_agent'}, {'name': 'nope'}]},
    {'transition_functions': [{'name': 'move_agent'}, 'turn_agent']},
    {'transition_functions': 5},
    {'reward_functions': [{'name': 'living_reward'}]},  # defaults only
    {'reward_functions': [{'name': 'overlap'}]},  # `object_type` missing
    {
        'terminating_functions': [{'name': 'overlap'}],
        'shape': [2, 2],
    },
]


def check_process_reserved_keys():
    for data in RESERVED_CASES:
        got = converted(yf.process_reserved_keys, data)
        expected = converted(REFERENCE.process_reserved_keys, data)
        check(got == expected, f'process_reserved_keys differs on {data!r}')
        if expected[0][0] == 'returned':
            check(got[0] == ('returned', None), 'returns None')
            check(
                [k for k, _ in got[1]] == list(data),
                f'key order changed on {data!r}',
            )

    # hard-coded expectations
    data = {
        'shape': [4, 9],
        'layout': [2, 3],
        'area': [[-6, 0], [-3, 3]],
        'object_type': 'Key',
        'colors': ['RED', 'NONE'],
        'other': [4, 9],
    }
    other = data['other']
    check(yf.process_reserved_keys(data) is None, 'in place')
    check(
        data
        == {
            'shape': Shape(4, 9),
            'layout': (2, 3),
            'area': Area([-6, 0], [-3, 3]),  # bounds kept as given
            'object_type': Key,
            'colors': {Color.RED, Color.NONE},
            'other': [4, 9],
        },
        f'conversions: {data!r}',
    )
    check(type(data['shape']) is Shape, 'shape type')
    check(type(data['layout']) is tuple, 'layout type')
    check(type(data['area']) is Area, 'area type')
    check(type(data['colors']) is set, 'colors type')
    check(data['other'] is other, 'foreign value replaced')

    # nested components are built once each, in order
    data = {
        'transition_functions': [
            {'name': 'turn_agent'},
            {'name': 'move_agent'},
            {'name': 'pickndrop'},
        ]
    }
    yf.process_reserved_keys(data)
    check(
        [f.func for f in data['transition_functions']]
        == [
            transition_fs.turn_agent,
            transition_fs.move_agent,
            transition_fs.pickndrop,
        ],
        'nested transition functions',
    )


# --------------------------------------------------------------------------
# the component factories of the yaml layer
# --------------------------------------------------------------------------

COMPONENT_CASES = [
    ('reset_function', {'name': 'empty', 'shape': [4, 7]}),
    ('reset_function', {'name': 'empty', 'shape': [3, 3], 'random_agent': True}),
    ('reset_function', {'name': 'empty', 'shape': [5, 4], 'junk': 'ignored'}),
    ('reset_function', {'name': 'rooms', 'shape': [7, 10], 'layout': [2, 3]}),
    ('reset_function', {'name': 'keydoor', 'shape': [5, 9]}),
    (
        'reset_function',
        {'name': 'crossing', 'shape': [7, 9], 'num_rivers': 2, 'object_type': 'Wall'},
    ),
    (
        'reset_function',
        {
            'name': 'memory',
            'shape': [5, 7],
            'colors': ['RED', 'GREEN'],
        },
    ),
    ('transition_function', {'name': 'move_agent'}),
    (
        'transition_function',
        {
            'name': 'chain',
            'transition_functions': [
                {'name': 'move_agent'},
                {'name': 'turn_agent'},
                {
                    'name': 'chain',
                    'transition_functions': [{'name': 'actuate_door'}],
                },
            ],
        },
    ),
    ('reward_function', {'name': 'living_reward', 'reward': -0.05}),
    (
        'reward_function',
        {
            'name': 'getting_closer',
            'distance_function': 'euclidean',
            'object_type': 'Exit',
            'reward_closer': 0.2,
            'reward_further': -0.2,
        },
    ),
    (
        'reward_function',
        {
            'name': 'reduce_sum',
            'reward_functions': [
                {'name': 'reach_exit', 'reward_on': 5.0},
                {'name': 'bump_into_wall', 'reward': -1.0},
            ],
        },
    ),
    ('observation_function', {'name': 'fully_transparent', 'area': [[-2, 0], [-1, 1]]}),
    (
        'observation_function',
        {'name': 'partially_occluded', 'area': [[-6, 0], [-3, 3]]},
    ),
    ('observation_function', {'name': 'raytracing', 'area': [[-3, 1], [-1, 2]]}),
    (
        'observation_function',
        {
            'name': 'from_visibility',
            'area': [[-1, 0], [-2, 2]],
            'visibility_function': {'name': 'fully_transparent'},
        },
    ),
    ('visibility_function', {'name': 'partially_occluded'}),
    ('visibility_function', {'name': 'stochastic_raytracing'}),
    ('terminating_function', {'name': 'reach_exit'}),
    (
        'terminating_function',
        {
            'name': 'reduce_all',
            'terminating_functions': [
                {'name': 'reach_exit'},
                {'name': 'overlap', 'object_type': 'Exit'},
            ],
        },
    ),
    # rejected ones
    ('reset_function', {'name': 'nope', 'shape': [4, 4]}),
    ('reset_function', {'name': 'empty'}),
    ('reset_function', {'name': 'empty', 'shape': [0, 4]}),
    ('reset_function', {'name': 'empty', 'shape': [4]}),
    ('reset_function', {'name': 'empty', 'shape': [4, 4, 4]}),
    ('reset_function', {'name': 'empty', 'shape': ['4', 4]}),
    ('reset_function', {'name': 'empty', 'shape': [-4, 4]}),
    ('reset_function', {'name': 'rooms', 'shape': [7, 7], 'layout': [0, 2]}),
    ('reset_function', {'name': 'memory', 'shape': [5, 5], 'colors': ['PINK']}),
    ('reset_function', {'name': 'memory', 'shape': [5, 5], 'colors': []}),
    ('reset_function', {'shape': [4, 4]}),
    ('reset_function', {'name': 3, 'shape': [4, 4]}),
    ('reset_function', ['empty']),
    ('transition_function', {'name': 'nope'}),
    ('transition_function', {'name': 'chain'}),
    ('transition_function', {'name': 'chain', 'transition_functions': []}),
    ('reward_function', {'name': 'overlap'}),
    ('reward_function', {'name': 'overlap', 'reward_on': 2.0}),
    ('reward_function', {'name': 'overlap', 'object_type': 'Unicorn'}),
    (
        'reward_function',
        {'name': 'getting_closer', 'object_type': 'Exit', 'distance_function': 'x'},
    ),
    ('observation_function', {'name': 'nope', 'area': [[0, 0], [0, 0]]}),
    ('observation_function', {'name': 'fully_transparent'}),
    ('visibility_function', {'name': 'nope'}),
    ('terminating_function', {'name': 'nope'}),
    ('terminating_function', {'name': 'reduce_any'}),
]

EXPECTED_ERRORS = {
    # (kind, index among rejected) -> exception type name, filled below
}


def described(function, data):
    pristine_data = copy.deepcopy(data)
    try:
        outcome = partial_signature(function(data))
    except SchemaError as error:
        outcome = ('raised', 'SchemaError', type(error).__name__)
    except (ValueError, TypeError, KeyError) as error:
        outcome = ('raised', type(error).__name__)
    check(data == pristine_data, f'input modified: {pristine_data!r}')
    return outcome


def check_component_factories():
    rejected = 0
    for kind, data in COMPONENT_CASES:
        function = getattr(yf, f'factory_{kind}')
        got = described(function, data)
        expected = described(
            functools.partial(REFERENCE.component, kind), copy.deepcopy(data)
        )
        check(got == expected, f'factory_{kind} differs on {data!r}')
        check(got == described(function, data), f'{kind} not repeatable')
        if got[0] == 'raised':
            rejected += 1
            check(
                got[1] in ('SchemaError', 'ValueError'),
                f'factory_{kind} on {data!r} raised {got[1]}',
            )
        else:
            check(
                got[1] is REGISTRIES[kind][data['name']],
                f'factory_{kind}: wrong function for {data!r}',
            )
            check('junk' not in dict(got[3]), 'foreign parameter forwarded')
    check(rejected == 25, f'expected 25 rejected cases, got {rejected}')

    # hard-coded: the bound parameters are the converted ones
    reset = yf.factory_reset_function(
        {'name': 'rooms', 'shape': [7, 10], 'layout': [2, 3], 'junk': 0}
    )
    check(reset.func is reset_fs.rooms, 'rooms function')
    check(
        reset.keywords == {'shape': Shape(7, 10), 'layout': (2, 3)},
        f'rooms keywords {reset.keywords}',
    )
    reward = yf.factory_reward_function(
        {
            'name': 'getting_closer',
            'distance_function': 'manhattan',
            'object_type': 'Exit',
            'reward_closer': 0.25,
        }
    )
    check(reward.func is reward_fs.getting_closer, 'getting_closer function')
    check(reward.keywords['object_type'] is Exit, 'object_type converted')
    check(reward.keywords['reward_closer'] == 0.25, 'reward_closer')
    check(
        reward.keywords['distance_function']
        is distance_function_factory('manhattan'),
        'distance function',
    )
    check(set(reward.keywords) == {'distance_function', 'object_type', 'reward_closer'}, 'keys')
    crossing = yf.factory_reset_function(
        {'name': 'crossing', 'shape': [7, 9], 'num_rivers': 2, 'object_type': 'Wall'}
    )
    check(crossing.keywords['object_type'] is Wall, 'crossing object type')

    # a component built from data behaves like the function called directly
    for seed in (0, 5):
        for data, direct in (
            (
                {'name': 'rooms', 'shape': [7, 10], 'layout': [2, 3]},
                lambda rng: reset_fs.rooms(Shape(7, 10), (2, 3), rng=rng),
            ),
            (
                {'name': 'keydoor', 'shape': [5, 9]},
                lambda rng: reset_fs.keydoor(Shape(5, 9), rng=rng),
            ),
            (
                {'name': 'empty', 'shape': [4, 8], 'random_agent': True},
                lambda rng: reset_fs.empty(Shape(4, 8), True, rng=rng),
            ),
        ):
            import numpy.random as rnd

            built = yf.factory_reset_function(data)
            check(
                built(rng=rnd.default_rng(seed)) == direct(rnd.default_rng(seed)),
                f'reset {data!r} seed {seed}',
            )


# --------------------------------------------------------------------------
# systematic corruptions of the shipped configurations
# --------------------------------------------------------------------------


def corruptions(data):
    def edited(path, value, delete=False):
        new = copy.deepcopy(data)
        node = new
        for key in path[:-1]:
            node = node[key]
        if delete:
            del node[path[-1]]
        else:
            node[path[-1]] = value
        return new

    yield 'unknown reset', edited(['reset_function', 'name'], 'nope'), 'ValueError'
    yield 'unknown transition', edited(
        ['transition_functions', 0, 'name'], 'nope'
    ), 'ValueError'
    yield 'unknown reward', edited(
        ['reward_functions', -1, 'name'], 'nope'
    ), 'ValueError'
    yield 'unknown observation', edited(
        ['observation_function', 'name'], 'nope'
    ), 'ValueError'
    yield 'unknown terminating', edited(
        ['terminating_function', 'name'], 'nope'
    ), 'ValueError'
    yield 'unknown object', edited(
        ['state_space', 'objects', 0], 'Unicorn'
    ), 'ValueError'
    yield 'nameless reset', edited(
        ['reset_function', 'name'], None, delete=True
    ), 'SchemaError'
    yield 'missing area', edited(
        ['observation_function', 'area'], None, delete=True
    ), 'ValueError'
    yield 'missing object_type', edited(
        ['reward_functions', -1], {'name': 'overlap', 'reward_on': 1.0}
    ), 'ValueError'
    yield 'no transition functions', edited(
        ['transition_functions'], []
    ), 'SchemaError'
    yield 'no reward functions key', edited(
        ['reward_functions'], None, delete=True
    ), 'SchemaError'
    yield 'bad colour', edited(
        ['state_space', 'colors', 0], 'PINK'
    ), 'SchemaError'
    yield 'lowercase colour', edited(
        ['observation_space', 'colors', 0], 'none'
    ), 'SchemaError'
    yield 'no colours', edited(['observation_space', 'colors'], []), 'SchemaError'
    yield 'bad action', edited(['action_space'], ['MOVE_FORWARD', 'JUMP']), 'SchemaError'
    yield 'repeated action', edited(
        ['action_space'], ['TURN_LEFT', 'TURN_LEFT']
    ), 'SchemaError'
    yield 'no actions', edited(['action_space'], []), 'SchemaError'
    yield 'extra key', edited(['gravity'], 9.8), 'SchemaError'
    if 'shape' in data['reset_function']:
        for name, shape in (
            ('zero shape', [0, 5]),
            ('negative shape', [5, -5]),
            ('short shape', [5]),
            ('long shape', [5, 5, 5]),
            ('float shape', [5.0, 5]),
            ('string shape', '5x5'),
        ):
            yield name, edited(['reset_function', 'shape'], shape), 'SchemaError'


def check_corruptions():
    for path in sorted(glob.glob(os.path.join(ROOT, 'yaml', '*.yaml'))):
        label = os.path.relpath(path, ROOT)
        data = load_config(path)
        for name, corrupted, expected in corruptions(data):
            snapshot = copy.deepcopy(corrupted)
            for builder, who in (
                (yf.factory_env_from_data, 'library'),
                (REFERENCE.env, 'reference'),
            ):
                try:
                    build(builder, corrupted)
                except SchemaError:
                    raised = 'SchemaError'
                except ValueError as error:
                    raised = type(error).__name__
                else:
                    raised = None
                check(
                    raised == expected,
                    f'{label}: {name} ({who}): {raised} instead of {expected}',
                )
            check(corrupted == snapshot, f'{label}: {name}: input modified')


def main():
    check_process_reserved_keys()
    check_component_factories()
    check_shipped_configurations()
    check_corruptions()
    print(f'OK ({CHECKS} checks)')


if __name__ == '__main__':
    main()
