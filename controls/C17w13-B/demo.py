#!/usr/bin/env python
"""Demo for change B (process_reserved_keys driven by a table of converters).

Run from the worktree root:  /venv/bin/python _seed/B/demo.py

Exits 0 on the pristine tree and with the change applied.  Checks, against a
reference spelled in this file (the pristine if-chain, and an independent
hand-assembly which binds registered functions with functools.partial):

* `process_reserved_keys` on every reserved key alone, in pairs, all together
  in many insertion orders, mixed with unreserved keys, on malformed values
  (same error, same partially converted mapping), on empty lists, on repeated
  calls and on other mapping types;
* `factory_<kind>_function` on every component of every shipped configuration
  and on every registered name offered every reserved key (converted where
  accepted, ignored elsewhere, input unchanged, repeatable), plus behaviour of
  components built from reserved keys (non-square shapes, asymmetric areas,
  agent in corners, all headings);
* that every shipped configuration builds the environment assembled by hand
  (seeds x action sequences), leaves its input unchanged, is repeatable;
* that systematic corruptions are rejected with SchemaError / ValueError.
"""

# --------------------------------------------------------------------------
# shared harness: shipped configurations, hand-assembled reference, runs
# --------------------------------------------------------------------------
import copy
import functools
import glob
import hashlib
import inspect
import itertools as itt
import json
import os
import sys
import warnings

warnings.filterwarnings('ignore')

ROOT = os.getcwd()
sys.path.insert(0, ROOT)
sys.path.insert(0, os.path.join(ROOT, 'examples'))  # coin_env:... components

import numpy as np  # noqa: E402
from schema import SchemaError  # noqa: E402

from gym_gridverse.action import Action  # noqa: E402
from gym_gridverse.envs import observation_functions as observation_fs  # noqa: E402
from gym_gridverse.envs import reset_functions as reset_fs  # noqa: E402
from gym_gridverse.envs import reward_functions as reward_fs  # noqa: E402
from gym_gridverse.envs import terminating_functions as terminating_fs  # noqa: E402
from gym_gridverse.envs import transition_functions as transition_fs  # noqa: E402
from gym_gridverse.envs import visibility_functions as visibility_fs  # noqa: E402
from gym_gridverse.envs.gridworld import GridWorld  # noqa: E402
from gym_gridverse.envs.yaml import factory as yaml_factory  # noqa: E402
from gym_gridverse.geometry import Area, Orientation, Position, Shape  # noqa: E402
from gym_gridverse.grid import Grid  # noqa: E402
from gym_gridverse.grid_object import (  # noqa: E402
    Color,
    Exit,
    Floor,
    Key,
    Wall,
    grid_object_registry,
)
from gym_gridverse.rng import make_rng, reset_gv_rng  # noqa: E402
from gym_gridverse.spaces import (  # noqa: E402
    ActionSpace,
    ObservationSpace,
    StateSpace,
)
from gym_gridverse.state import State  # noqa: E402
from gym_gridverse.agent import Agent  # noqa: E402

CHECKS = 0


def check(condition, message):
    global CHECKS
    CHECKS += 1
    if not condition:
        print('FAILED:', message)
        sys.exit(1)


# ---- a tiny reader for the YAML subset used by the shipped configurations --


def _scalar(text):
    text = text.strip()
    if len(text) >= 2 and text[0] == text[-1] and text[0] in '\'"':
        return text[1:-1]
    if text in ('true', 'True'):
        return True
    if text in ('false', 'False'):
        return False
    if text in ('null', '~', ''):
        return None
    try:
        return int(text)
    except ValueError:
        pass
    try:
        return float(text)
    except ValueError:
        return text


def _flow(text):
    """parses `[ a, [ b, c ] ]`"""
    pos = 0

    def skip():
        nonlocal pos
        while pos < len(text) and text[pos] in ' \t':
            pos += 1

    def value():
        nonlocal pos
        skip()
        if text[pos] == '[':
            pos += 1
            items = []
            skip()
            if text[pos] == ']':
                pos += 1
                return items
            while True:
                items.append(value())
                skip()
                if text[pos] == ',':
                    pos += 1
                    continue
                assert text[pos] == ']', text
                pos += 1
                return items
        start = pos
        while pos < len(text) and text[pos] not in ',]':
            pos += 1
        return _scalar(text[start:pos])

    result = value()
    skip()
    assert pos == len(text), text
    return result


def _value(text):
    text = text.strip()
    return _flow(text) if text.startswith('[') else _scalar(text)


def _split_key(text):
    """`key: value` or `key:` -> (key, value-text or None); else None"""
    if text.endswith(':'):
        return text[:-1].strip(), None
    if ': ' in text:
        key, rest = text.split(': ', 1)
        return key.strip(), rest.strip()
    return None


def mini_yaml(source):
    lines = []
    for raw in source.splitlines():
        if '#' in raw:
            i = raw.index('#')
            if i == 0 or raw[i - 1] in ' \t':
                raw = raw[:i]
        if raw.strip():
            lines.append((len(raw) - len(raw.lstrip(' ')), raw.strip()))

    def block(i, indent):
        """parses the block starting at line i whose indentation is indent"""
        if lines[i][1].startswith('- ') or lines[i][1] == '-':
            items = []
            while i < len(lines) and lines[i][0] == indent:
                ind, text = lines[i]
                assert text.startswith('-'), text
                rest = text[1:].lstrip(' ')
                inner = indent + (len(text) - len(rest))
                if _split_key(rest) is not None and not rest.startswith('['):
                    # a mapping which starts on the dash line
                    lines[i] = (inner, rest)
                    item, i = block(i, inner)
                else:
                    item, i = _value(rest), i + 1
                items.append(item)
            assert i == len(lines) or lines[i][0] < indent, lines[i]
            return items, i

        mapping = {}
        while i < len(lines) and lines[i][0] == indent:
            key, rest = _split_key(lines[i][1])
            assert key not in mapping
            if rest is None:
                assert lines[i + 1][0] > indent
                mapping[key], i = block(i + 1, lines[i + 1][0])
            else:
                mapping[key], i = _value(rest), i + 1
        assert i == len(lines) or lines[i][0] < indent, lines[i]
        return mapping, i

    data, end = block(0, lines[0][0])
    assert end == len(lines)
    return data


# sha256 prefixes of json.dumps(yaml.safe_load(file)) computed with PyYAML
PYYAML_DIGESTS = {
    'examples/coin_env.yaml': '08d6fd7761a83653',
    'yaml/gv_crossing.5x5.yaml': 'cb4279054122b0d2',
    'yaml/gv_crossing.7x7.yaml': 'c04a09693abed6f0',
    'yaml/gv_dynamic_obstacles.5x5.yaml': '771552d2a50af28a',
    'yaml/gv_dynamic_obstacles.7x7.yaml': '554737088890e673',
    'yaml/gv_empty.4x4.yaml': 'ce476532c136298a',
    'yaml/gv_empty.8x8.yaml': '93d30080530baa6f',
    'yaml/gv_four_rooms.7x7.yaml': '4eca814029b5eed3',
    'yaml/gv_four_rooms.9x9.yaml': '2ffb74627ae025cc',
    'yaml/gv_keydoor.5x5.yaml': '6ed73c0b1ac596e8',
    'yaml/gv_keydoor.7x7.yaml': 'a994231c677ae7c6',
    'yaml/gv_keydoor.9x9.yaml': '72e38863b462cb4f',
    'yaml/gv_memory.5x5.yaml': 'efb69cb8db082a98',
    'yaml/gv_memory.9x9.yaml': '8f4ff4e536fb7659',
    'yaml/gv_memory_four_rooms.7x7.yaml': '23033c880f70bbaa',
    'yaml/gv_memory_four_rooms.9x9.yaml': 'c5aa83992e9d9d27',
    'yaml/gv_memory_nine_rooms.10x10.yaml': 'b3711cfd8700c492',
    'yaml/gv_memory_nine_rooms.13x13.yaml': 'b09773a5dc1e3998',
    'yaml/gv_nine_rooms.10x10.yaml': 'eeb83bc01cb97b1d',
    'yaml/gv_nine_rooms.13x13.yaml': '69f4a71a0efe3d0d',
    'yaml/gv_teleport.5x5.yaml': '4fb8f9731e498a0a',
    'yaml/gv_teleport.7x7.yaml': '3f0b136b5fc93116',
}


def load_shipped_configurations():
    """{relative path: data}; packaged copies are checked to be identical"""
    configurations = {}
    for path in sorted(PYYAML_DIGESTS):
        with open(os.path.join(ROOT, path)) as f:
            source = f.read()
        data = mini_yaml(source)
        digest = hashlib.sha256(json.dumps(data).encode()).hexdigest()[:16]
        check(digest == PYYAML_DIGESTS[path], f'mini-yaml reading of {path}')
        configurations[path] = data

    shipped = sorted(
        os.path.relpath(p, ROOT)
        for p in glob.glob(os.path.join(ROOT, 'yaml', '*.yaml'))
        + glob.glob(os.path.join(ROOT, 'examples', '*.yaml'))
    )
    check(shipped == sorted(PYYAML_DIGESTS), 'all shipped files are covered')

    packaged = sorted(
        glob.glob(os.path.join(ROOT, 'gym_gridverse', 'registered_envs', '*'))
    )
    check(
        [os.path.basename(p) for p in packaged]
        == [os.path.basename(p) for p in shipped if p.startswith('yaml')],
        'packaged copies <-> yaml/',
    )
    for p in packaged:
        with open(p, 'rb') as f, open(
            os.path.join(ROOT, 'yaml', os.path.basename(p)), 'rb'
        ) as g:
            check(f.read() == g.read(), f'packaged copy {p} is identical')
    return configurations


# ---- reference: assembling the environment by hand --------------------------
# (uses neither gym_gridverse.envs.yaml.factory nor the `factory` functions of
# the component modules: the registered function is looked up in its table and
# bound with functools.partial to the parameters its signature accepts)

KINDS = {
    # kind: (module, registry, number of positional protocol parameters)
    'reset': (reset_fs, reset_fs.reset_function_registry, 0),
    'transition': (transition_fs, transition_fs.transition_function_registry, 2),
    'reward': (reward_fs, reward_fs.reward_function_registry, 3),
    'observation': (
        observation_fs,
        observation_fs.observation_function_registry,
        1,
    ),
    'terminating': (
        terminating_fs,
        terminating_fs.terminating_function_registry,
        3,
    ),
    'visibility': (visibility_fs, visibility_fs.visibility_function_registry, 2),
}


def hand_name(name):
    if ':' in name:
        module_name, name = name.split(':')
        __import__(module_name)
    return name


def hand_accepted_names(kind, function):
    """names of the parameters of function which are not protocol ones"""
    _, _, n = KINDS[kind]
    names = list(inspect.signature(function).parameters)
    return [name for name in names[n:] if name != 'rng']


def hand_convert(key, value):
    """the documented meaning of the reserved keys"""
    if key == 'transition_functions':
        return [hand_component('transition', d) for d in value]
    if key == 'reward_functions':
        return [hand_component('reward', d) for d in value]
    if key == 'terminating_functions':
        return [hand_component('terminating', d) for d in value]
    if key == 'reward_function':
        return hand_component('reward', value)
    if key == 'visibility_function':
        return hand_component('visibility', value)
    if key == 'distance_function':
        return {
            'manhattan': Position.manhattan_distance,
            'euclidean': Position.euclidean_distance,
        }[value]
    if key == 'shape':
        height, width = value
        return Shape(height, width)
    if key == 'layout':
        return (value[0], value[1])
    if key == 'area':
        return Area((value[0][0], value[0][1]), (value[1][0], value[1][1]))
    if key == 'object_type':
        return {t.__name__: t for t in grid_object_registry}[value]
    if key == 'colors':
        return {Color[name] for name in value}
    return value


def hand_component(kind, data):
    _, registry, _ = KINDS[kind]
    function = registry[hand_name(data['name'])]
    accepted = hand_accepted_names(kind, function)
    kwargs = {
        key: hand_convert(key, value)
        for key, value in data.items()
        if key != 'name' and key in accepted
    }
    return functools.partial(function, **kwargs)


def hand_object_types(names):
    by_name = {}
    result = []
    for name in names:
        name = hand_name(name)
        by_name = {t.__name__: t for t in grid_object_registry}
        result.append(by_name[name])
    return result


def hand_env(data):
    reset_function = hand_component('reset', data['reset_function'])
    transition_function = functools.partial(
        transition_fs.chain,
        transition_functions=[
            hand_component('transition', d)
            for d in data['transition_functions']
        ],
    )
    reward_function = functools.partial(
        reward_fs.reduce_sum,
        reward_functions=[
            hand_component('reward', d) for d in data['reward_functions']
        ],
    )
    observation_function = hand_component(
        'observation', data['observation_function']
    )
    terminating_function = hand_component(
        'terminating', data['terminating_function']
    )
    action_space = ActionSpace(
        [Action[name] for name in data['action_space']]
        if 'action_space' in data
        else list(Action)
    )
    state = reset_function()
    state_space = StateSpace(
        state.grid.shape,
        hand_object_types(data['state_space']['objects']),
        [Color[name] for name in data['state_space']['colors']],
    )
    observation = observation_function(state)
    observation_space = ObservationSpace(
        observation.grid.shape,
        hand_object_types(data['observation_space']['objects']),
        [Color[name] for name in data['observation_space']['colors']],
    )
    return GridWorld(
        state_space,
        action_space,
        observation_space,
        reset_function,
        transition_function,
        observation_function,
        reward_function,
        terminating_function,
    )


# ---- comparing behaviours ---------------------------------------------------


def space_facts(env):
    s, o, a = env.state_space, env.observation_space, env.action_space
    return (
        (s.grid_shape, list(s.object_types), list(s.colors)),
        (o.grid_shape, list(o.object_types), list(o.colors)),
        list(a.actions),
    )


def trajectory(env, seed, actions):
    """everything observable along an episode driven by the given actions"""
    reset_gv_rng(seed + 1000)  # library-level generator (rng-less calls)
    env.set_seed(seed)
    env.reset()
    trace = [(env.state, env.observation)]
    for action in actions:
        reward, done = env.step(action)
        trace.append((action, reward, done, env.state, env.observation))
        if done:
            env.reset()
            trace.append((env.state, env.observation))
    return trace


def action_sequences(env, seed, length):
    actions = list(env.action_space.actions)
    rng = np.random.default_rng(seed)
    return [actions[i] for i in rng.integers(len(actions), size=length)]


def canon(value):
    """structural form of (nested) partials, so that they can be compared"""
    if isinstance(value, functools.partial):
        return (
            'partial',
            value.func,
            canon(value.args),
            # keyword order is immaterial to the behaviour of a partial
            sorted((k, canon(v)) for k, v in value.keywords.items()),
        )
    if isinstance(value, Area):
        # Area(*[[y0, y1], [x0, x1]]) keeps lists, Area((y0, y1), (x0, x1)) not
        return ('Area', tuple(value.ys), tuple(value.xs))
    if isinstance(value, list):
        return ('list', [canon(v) for v in value])
    if type(value) is tuple:
        return ('tuple', [canon(v) for v in value])
    if isinstance(value, dict):
        return ('dict', [(k, canon(v)) for k, v in value.items()])
    return (type(value), value)


def same_partial(x, y):
    return (
        type(x) is type(y) is functools.partial
        and x.func is y.func
        and x.args == y.args
        and list(x.keywords.items()) == list(y.keywords.items())
    )


def outcome(f, *args, **kwargs):
    """('ok', value) or ('error', type, message)"""
    try:
        return ('ok', f(*args, **kwargs))
    except Exception as error:  # pylint: disable=broad-except
        return ('error', type(error), str(error))


def rejected(f, *args, **kwargs):
    try:
        f(*args, **kwargs)
    except (SchemaError, ValueError):
        return True
    except Exception as error:  # pylint: disable=broad-except
        print('unexpected', type(error), error)
        return False
    return False


def check_configurations(configurations, seeds=(0, 1, 7), length=40):
    """built == hand-assembled, input unchanged, repeatable"""
    digest = hashlib.sha256()
    for path, data in configurations.items():
        before = copy.deepcopy(data)
        env = yaml_factory.factory_env_from_data(data)
        check(data == before, f'{path}: input data unchanged')
        env_again = yaml_factory.factory_env_from_data(data)
        check(data == before, f'{path}: input data unchanged (2nd build)')
        env_hand = hand_env(before)

        check(
            space_facts(env) == space_facts(env_hand) == space_facts(env_again),
            f'{path}: spaces',
        )
        for seed in seeds:
            actions = action_sequences(env_hand, seed, length)
            expected = trajectory(env_hand, seed, actions)
            check(
                trajectory(env, seed, actions) == expected,
                f'{path}: seed {seed}: built != hand-assembled',
            )
            check(
                trajectory(env_again, seed, actions) == expected,
                f'{path}: seed {seed}: second build != hand-assembled',
            )
            # re-seeding the same environment reproduces the episode
            check(
                trajectory(env, seed, actions) == expected,
                f'{path}: seed {seed}: re-seeding',
            )
            digest.update(repr((path, seed, expected)).encode())
    return digest.hexdigest()[:16]


def check_corruptions(configurations):
    """systematic corruptions of the shipped configurations are rejected"""
    build = yaml_factory.factory_env_from_data
    count = 0
    for path, data in configurations.items():

        def corrupt(edit):
            nonlocal count
            corrupted = copy.deepcopy(data)
            if edit(corrupted) is False:
                return
            frozen = copy.deepcopy(corrupted)
            check(rejected(build, corrupted), f'{path}: corruption accepted')
            check(corrupted == frozen, f'{path}: corrupted input was modified')
            count += 1

        # unknown component names
        def rename(section, index=None):
            def edit(d):
                target = d[section] if index is None else d[section][index]
                target['name'] = 'no_such_component'

            return edit

        corrupt(rename('reset_function'))
        corrupt(rename('observation_function'))
        corrupt(rename('terminating_function'))
        for i in range(len(data['transition_functions'])):
            corrupt(rename('transition_functions', i))
        for i in range(len(data['reward_functions'])):
            corrupt(rename('reward_functions', i))

        def nested_rename(d):
            nested = d['terminating_function'].get('terminating_functions')
            if not nested:
                return False
            nested[-1]['name'] = 'no_such_component'

        corrupt(nested_rename)

        # unknown object types / colours / actions
        corrupt(lambda d: d['state_space']['objects'].append('Unicorn'))
        corrupt(lambda d: d['observation_space']['objects'].append('Unicorn'))
        corrupt(lambda d: d['state_space']['colors'].append('PURPLE'))
        corrupt(lambda d: d['observation_space']['colors'].append('none'))
        corrupt(lambda d: d['state_space']['colors'].append(3))
        corrupt(lambda d: d['state_space'].update(colors=[]))
        corrupt(lambda d: d['state_space'].update(objects=[]))
        corrupt(lambda d: d['state_space'].update(colors='NONE'))
        corrupt(
            lambda d: d['state_space']['colors'].append(
                d['state_space']['colors'][0]
            )
        )
        corrupt(
            lambda d: d['observation_space']['objects'].append(
                d['observation_space']['objects'][0]
            )
        )
        corrupt(lambda d: d.update(action_space=['JUMP']))
        corrupt(lambda d: d.update(action_space=[]))
        corrupt(lambda d: d.update(action_space=['TURN_LEFT', 'TURN_LEFT']))
        corrupt(lambda d: d.update(action_space=['move_forward']))
        corrupt(lambda d: d.update(action_space='TURN_LEFT'))
        corrupt(lambda d: d.update(action_space=[0, 1]))

        # missing / additional sections
        for section in [
            'state_space',
            'observation_space',
            'reset_function',
            'transition_functions',
            'reward_functions',
            'observation_function',
            'terminating_function',
        ]:
            corrupt(lambda d, section=section: d.pop(section) and None)
        corrupt(lambda d: d.update(no_such_section=1))
        corrupt(lambda d: d.update(transition_functions=[]))
        corrupt(lambda d: d.update(reward_functions=[]))
        corrupt(lambda d: d['reset_function'].pop('name') and None)
        corrupt(lambda d: d['observation_function'].pop('name') and None)
        corrupt(lambda d: d['reward_functions'][0].pop('name') and None)
        corrupt(lambda d: d['state_space'].pop('colors') and None)
        corrupt(lambda d: d['observation_space'].pop('objects') and None)

        # missing required parameters
        for key in ['shape', 'layout', 'colors', 'num_obstacles', 'num_rivers']:

            def drop(d, key=key):
                if key not in d['reset_function']:
                    return False
                del d['reset_function'][key]

            corrupt(drop)
        corrupt(lambda d: d['observation_function'].pop('area') and None)

        def drop_object_type(d):
            for r in d['reward_functions']:
                if 'object_type' in r:
                    del r['object_type']
                    return None
            return False

        corrupt(drop_object_type)

        # malformed shapes, layouts, colours, object types
        for shape in [
            [0, 5],
            [5, 0],
            [-3, 5],
            [5],
            [],
            [5, 5, 5],
            [5.0, 5],
            ['5', '5'],
            '55',
            [[5, 5]],
        ]:

            def reshape(d, shape=shape):
                if 'shape' not in d['reset_function']:
                    return False
                d['reset_function']['shape'] = shape

            corrupt(reshape)

            def relayout(d, shape=shape):
                if 'layout' not in d['reset_function']:
                    return False
                d['reset_function']['layout'] = shape

            corrupt(relayout)

        for colors in [[], ['PURPLE'], ['RED', 'RED'], ['red'], 'RED', [1]]:

            def recolor(d, colors=colors):
                if 'colors' not in d['reset_function']:
                    return False
                d['reset_function']['colors'] = colors

            corrupt(recolor)

        for object_type in ['Unicorn', 'wall', 3, ['Wall']]:

            def retype(d, object_type=object_type):
                for r in d['reward_functions']:
                    if 'object_type' in r:
                        r['object_type'] = object_type
                        return None
                return False

            corrupt(retype)

        def bad_distance(d):
            for r in d['reward_functions']:
                if 'distance_function' in r:
                    r['distance_function'] = 'chebyshev'
                    return None
            return False

        corrupt(bad_distance)

        # reserved keys are validated even where the component ignores them
        corrupt(lambda d: d['transition_functions'][0].update(shape=[0, 1]))
        corrupt(lambda d: d['reward_functions'][0].update(colors=['PURPLE']))
        corrupt(lambda d: d['reward_functions'][0].update(colors=[]))
        corrupt(lambda d: d['terminating_function'].update(layout=[1]))
        corrupt(lambda d: d['observation_function'].update(object_type=1))
        corrupt(
            lambda d: d['observation_function'].update(
                reward_function={'name': 'no_such_component'}
            )
        )
        corrupt(
            lambda d: d['reset_function'].update(
                transition_functions=[{'name': 'no_such_component'}]
            )
        )
        corrupt(
            lambda d: d['reset_function'].update(
                terminating_functions=[{'nome': 'reach_exit'}]
            )
        )
        corrupt(lambda d: d['reset_function'].update(reward_functions=[]))
    return count


def check_ignored_parameters(configurations, seeds=(3,), length=25):
    """parameters a component does not accept (but which are well formed) are
    ignored: the environment is the one described without them"""
    for path, data in configurations.items():
        noisy = copy.deepcopy(data)
        noisy['reset_function']['reward'] = 3.0
        noisy['reset_function']['object_type'] = noisy['reset_function'].get(
            'object_type', 'Wall'
        )
        noisy['transition_functions'][0]['shape'] = [2, 3]
        noisy['transition_functions'][-1]['colors'] = ['RED', 'NONE']
        noisy['reward_functions'][0]['layout'] = [3, 1]
        noisy['reward_functions'][0]['area'] = [[0, 1], [2, 3]]
        noisy['reward_functions'][-1]['rng'] = 4
        noisy['observation_function']['distance_function'] = 'euclidean'
        noisy['observation_function']['reward_function'] = {
            'name': 'living_reward',
            'reward': 100.0,
        }
        noisy['terminating_function']['visibility_function'] = {
            'name': 'raytracing',
            'threshold': 2,
        }
        noisy['terminating_function']['transition_functions'] = [
            {'name': 'move_agent'}
        ]
        frozen = copy.deepcopy(noisy)
        env = yaml_factory.factory_env_from_data(noisy)
        check(noisy == frozen, f'{path}: noisy input unchanged')
        env_hand = hand_env(data)
        check(space_facts(env) == space_facts(env_hand), f'{path}: spaces')
        for seed in seeds:
            actions = action_sequences(env_hand, seed, length)
            check(
                trajectory(env, seed, actions)
                == trajectory(env_hand, seed, actions),
                f'{path}: ignored parameters changed the environment',
            )


# --------------------------------------------------------------------------
# specific to change B: gym_gridverse.envs.yaml.factory.process_reserved_keys
# --------------------------------------------------------------------------


def reference_process_reserved_keys(data):
    """process_reserved_keys as spelled on the pristine tree"""
    if 'transition_functions' in data:
        data['transition_functions'] = [
            yaml_factory.factory_transition_function(d)
            for d in data['transition_functions']
        ]

    if 'reward_functions' in data:
        data['reward_functions'] = [
            yaml_factory.factory_reward_function(d)
            for d in data['reward_functions']
        ]

    if 'terminating_functions' in data:
        data['terminating_functions'] = [
            yaml_factory.factory_terminating_function(d)
            for d in data['terminating_functions']
        ]

    if 'reward_function' in data:
        data['reward_function'] = yaml_factory.factory_reward_function(
            data['reward_function']
        )

    if 'distance_function' in data:
        data['distance_function'] = yaml_factory.factory_distance_function(
            data['distance_function']
        )

    if 'visibility_function' in data:
        data['visibility_function'] = yaml_factory.factory_visibility_function(
            data['visibility_function']
        )

    if 'shape' in data:
        data['shape'] = Shape(*data['shape'])

    if 'layout' in data:
        data['layout'] = tuple(data['layout'])

    if 'area' in data:
        data['area'] = Area(*data['area'])

    if 'object_type' in data:
        data['object_type'] = grid_object_registry.from_name(
            data['object_type']
        )

    if 'colors' in data:
        data['colors'] = set(yaml_factory.factory_colors(data['colors']))


RESERVED_SAMPLES = {
    # key: well formed values
    'transition_functions': [
        [],
        [{'name': 'move_agent'}],
        [{'name': 'turn_agent'}, {'name': 'move_agent', 'shape': [1, 2]}],
        [
            {
                'name': 'chain',
                'transition_functions': [
                    {'name': 'teleport'},
                    {'name': 'chain', 'transition_functions': [{'name': 'turn_agent'}]},
                ],
            }
        ],
    ],
    'reward_functions': [
        [],
        [{'name': 'living_reward', 'reward': -0.25}],
        [
            {
                'name': 'getting_closer',
                'object_type': 'Exit',
                'distance_function': 'euclidean',
                'reward_closer': 0.5,
            },
            {'name': 'reach_exit'},
        ],
    ],
    'terminating_functions': [
        [],
        [{'name': 'reach_exit'}, {'name': 'bump_into_wall'}],
        [{'name': 'overlap', 'object_type': 'Floor'}],
    ],
    'reward_function': [
        {'name': 'living_reward'},
        {
            'name': 'reduce_sum',
            'reward_functions': [
                {'name': 'pickndrop', 'object_type': 'Key', 'reward_drop': 0.0},
                {'name': 'reduce_sum', 'reward_functions': [{'name': 'living_reward'}]},
            ],
        },
    ],
    'distance_function': ['manhattan', 'euclidean'],
    'visibility_function': [
        {'name': 'partially_occluded'},
        {'name': 'raytracing', 'threshold': 2, 'absolute_counts': False},
    ],
    'shape': [[1, 1], [3, 11], [11, 3], (4, 5)],
    'layout': [[1, 1], [2, 3], (3, 2), [1, 2, 3], []],
    'area': [[[-6, 0], [-3, 3]], [[0, 0], [0, 0]], [(-1, 4), (-2, 0)]],
    'object_type': ['Wall', 'Floor', 'Exit', 'NoneGridObject', 'Hidden'],
    'colors': [['NONE'], ['RED', 'NONE'], ['BLUE', 'GREEN', 'YELLOW', 'RED']],
}

RESERVED_MALFORMED = {
    # key: values on which the conversion raises
    'transition_functions': [
        [{'name': 'no_such_component'}],
        [{}],
        3,
        [{'name': 'chain', 'transition_functions': []}],
    ],
    'reward_functions': [[{'name': 'overlap'}], ['living_reward']],
    'terminating_functions': [[{'name': 'reach_exit'}, {'nome': 'x'}]],
    'reward_function': [{'name': 'pickndrop'}, {'name': 7}, 'living_reward'],
    'distance_function': ['chebyshev', 3],
    'visibility_function': [{'name': 'no_such_component'}],
    'shape': [[1], [1, 2, 3], 5, []],
    'layout': [5, None],
    'area': [[[0, -1], [0, 0]], [[0, 0]], 3],
    'object_type': ['Unicorn', 'wall', 3],
    'colors': [['PURPLE'], [], ['RED', 'RED'], 'RED', 7],
}

PLAIN = {
    # not reserved: left alone (identity)
    'reward': -0.5,
    'num_obstacles': 3,
    'random_agent': True,
    'objects': ['Wall'],
    'transition_function': {'name': 'no_such_component'},
    'terminating_function': {'name': 'no_such_component'},
    'reset_function': {'name': 'no_such_component'},
    'reset_functions': [{'name': 'no_such_component'}],
    'observation_function': {'name': 'no_such_component'},
    'color': 'PURPLE',
    'object_types': ['Unicorn'],
    'shapes': [0],
    'name': 'x',
    0: [0, 0],
    None: None,
}


def processed(process, data):
    """outcome of processing a copy of data, and what the copy looks like"""
    data = copy.deepcopy(data)
    result = outcome(process, data)
    if result[0] == 'ok':
        result = ('ok', result[1] is None)
    return result, canon(data)


def check_process_reserved_keys():
    process = yaml_factory.process_reserved_keys
    count = 0

    def compare(data):
        nonlocal count
        frozen = copy.deepcopy(data)
        got = processed(process, data)
        expected = processed(reference_process_reserved_keys, data)
        check(got == expected, f'process_reserved_keys({data}): {got}')
        check(data == frozen, 'the demo itself keeps its samples intact')
        count += 1
        return got

    compare({})
    compare(dict(PLAIN))

    # each key alone, with and without unreserved neighbours
    for key, values in RESERVED_SAMPLES.items():
        for value in values:
            (status, canon_data) = compare({key: value})
            check(status == ('ok', True), f'{key}: {value}: {status}')
            compare({'reward': 1.0, key: value, 'name': 'x'})
    for key, values in RESERVED_MALFORMED.items():
        for value in values:
            (status, canon_data) = compare({key: value})
            check(status[0] == 'error', f'{key}: {value} was converted')
            # conversion failed: the entry is as it was
            check(
                canon_data == canon({key: value}),
                f'{key}: {value}: modified although conversion failed',
            )

    # documented conversions, spelled out
    data = {
        'junk': [1, 2],
        'colors': ['RED', 'NONE'],
        'object_type': 'Exit',
        'area': [[-2, 0], [-1, 3]],
        'layout': [2, 3],
        'shape': [5, 9],
        'distance_function': 'euclidean',
    }
    junk = data['junk']
    check(process(data) is None, 'returns None, works in place')
    check(
        list(data) == ['junk', 'colors', 'object_type', 'area', 'layout',
                       'shape', 'distance_function'],
        'key order is kept',
    )
    check(data['junk'] is junk, 'unreserved values are the same objects')
    check(data['colors'] == {Color.RED, Color.NONE}, 'colors')
    check(type(data['colors']) is set, 'colors is a set')
    check(data['object_type'] is Exit, 'object_type')
    check(
        canon(data['area']) == canon(Area((-2, 0), (-1, 3)))
        and (data['area'].ymin, data['area'].ymax) == (-2, 0)
        and (data['area'].xmin, data['area'].xmax) == (-1, 3),
        'area',
    )
    check(data['layout'] == (2, 3) and type(data['layout']) is tuple, 'layout')
    check(data['shape'] == Shape(5, 9), 'shape (non-square)')
    check(
        data['distance_function'] is Position.euclidean_distance,
        'distance_function',
    )

    # all keys together, in several insertion orders
    keys = list(RESERVED_SAMPLES)
    rng = np.random.default_rng(17)
    orders = [keys, list(reversed(keys))] + [
        list(rng.permutation(keys)) for _ in range(12)
    ]
    for n, order in enumerate(orders):
        data = {}
        for j, key in enumerate(order):
            values = RESERVED_SAMPLES[key]
            data[key] = values[(n + j) % len(values)]
            if j % 3 == 0:
                plain_key = list(PLAIN)[(n + j) % len(PLAIN)]
                data[plain_key] = PLAIN[plain_key]
        (status, _) = compare(data)
        check(status == ('ok', True), f'all keys: {status}')

    # several malformed entries: the same one is reported, the same entries
    # have been converted by then (whatever the insertion order)
    malformed_keys = list(RESERVED_MALFORMED)
    for n in range(60):
        chosen = rng.choice(len(keys), size=int(rng.integers(2, 7)), replace=False)
        data = {}
        for j in chosen:
            key = keys[j]
            pool = (
                RESERVED_MALFORMED[key]
                if rng.random() < 0.5
                else RESERVED_SAMPLES[key]
            )
            data[key] = pool[int(rng.integers(len(pool)))]
        compare(data)
    check(set(malformed_keys) == set(keys), 'samples cover all reserved keys')

    # subsets of keys (every pair)
    for a, b in itt.permutations(keys, 2):
        compare({a: RESERVED_SAMPLES[a][-1], b: RESERVED_SAMPLES[b][0]})

    # repeated processing of one mapping: second pass sees converted values
    for key, values in RESERVED_SAMPLES.items():
        data_got = {key: copy.deepcopy(values[0])}
        data_expected = {key: copy.deepcopy(values[0])}
        first = outcome(process, data_got)
        check(first == ('ok', None), f'{key}: first pass')
        reference_process_reserved_keys(data_expected)
        second_got = outcome(process, data_got)
        second_expected = outcome(
            reference_process_reserved_keys, data_expected
        )
        check(
            second_got[:2] == second_expected[:2],
            f'{key}: second pass: {second_got} != {second_expected}',
        )
        check(canon(data_got) == canon(data_expected), f'{key}: second pass')
        count += 1

    # other mapping types are processed in place as well
    import collections

    for mapping_type in (collections.OrderedDict, collections.UserDict):
        data = mapping_type(shape=[2, 7], reward=3, colors=['GREEN'])
        process(data)
        check(
            dict(data)
            == {'shape': Shape(2, 7), 'reward': 3, 'colors': {Color.GREEN}},
            f'{mapping_type.__name__}',
        )
        check(type(data) is mapping_type, f'{mapping_type.__name__}: type')
        count += 1
    return count


def check_component_factories(configurations):
    """factory_<kind>_function(data) is the registered function bound to the
    accepted, converted parameters; data is left unchanged; repeatable"""
    factories = {
        'reset': yaml_factory.factory_reset_function,
        'transition': yaml_factory.factory_transition_function,
        'reward': yaml_factory.factory_reward_function,
        'observation': yaml_factory.factory_observation_function,
        'terminating': yaml_factory.factory_terminating_function,
        'visibility': yaml_factory.factory_visibility_function,
    }
    cases = []
    for path, data in configurations.items():
        cases.append(('reset', data['reset_function']))
        cases.append(('observation', data['observation_function']))
        cases.append(('terminating', data['terminating_function']))
        cases += [('transition', d) for d in data['transition_functions']]
        cases += [('reward', d) for d in data['reward_functions']]

    # every reserved key offered to every registered component: converted
    # where accepted, ignored (but validated) elsewhere
    everything = {
        'transition_functions': [{'name': 'move_agent'}, {'name': 'turn_agent'}],
        'reward_functions': [{'name': 'living_reward', 'reward': 0.5}],
        'terminating_functions': [{'name': 'reach_exit'}],
        'reward_function': {'name': 'reach_exit', 'reward_on': 2.0},
        'distance_function': 'euclidean',
        'visibility_function': {'name': 'raytracing', 'threshold': 2},
        'shape': [6, 9],
        'layout': [2, 3],
        'area': [[-4, 1], [-2, 3]],
        'object_type': 'Exit',
        'colors': ['RED', 'BLUE'],
        'num_obstacles': 2,
        'num_rivers': 1,
        'num_beacons': 1,
        'num_exits': 1,
        'reduction': max,
        'reward': 0.125,
        'threshold': 0.5,
        'rng': None,
    }
    for kind, (_, registry, _) in KINDS.items():
        for name in list(registry):
            if name.startswith('_demo_'):
                continue
            cases.append((kind, {'name': name, **copy.deepcopy(everything)}))
            reordered = dict(reversed(list(copy.deepcopy(everything).items())))
            cases.append((kind, {**reordered, 'name': name}))

    count = 0
    for kind, d in cases:
        frozen = copy.deepcopy(d)
        expected = canon(hand_component(kind, frozen))
        check(canon(factories[kind](d)) == expected, f'{kind} component {d}')
        check(d == frozen, f'{kind} component data {d} was modified')
        check(canon(factories[kind](d)) == expected, f'{kind}: repeatable')
        count += 1

    # behaviour of a component converted from the reserved keys
    reset = yaml_factory.factory_reset_function(
        {
            'name': 'memory_rooms',
            'shape': [7, 10],
            'layout': [2, 3],
            'colors': ['RED', 'GREEN', 'BLUE'],
            'num_beacons': 2,
            'num_exits': 2,
        }
    )
    direct = reset_fs.reset_function_registry['memory_rooms']
    for seed in range(4):
        check(
            outcome(reset, rng=make_rng(seed))
            == outcome(
                direct,
                Shape(7, 10),
                (2, 3),
                {Color.RED, Color.GREEN, Color.BLUE},
                2,
                2,
                rng=make_rng(seed),
            ),
            'memory_rooms through the reserved keys',
        )
    reset = yaml_factory.factory_reset_function(
        {'name': 'crossing', 'shape': [7, 9], 'num_rivers': 2,
         'object_type': 'Wall'}
    )
    observe = yaml_factory.factory_observation_function(
        {
            'name': 'from_visibility',
            'area': [[-3, 1], [-1, 2]],
            'visibility_function': {'name': 'raytracing', 'threshold': 2},
        }
    )
    raytracing = visibility_fs.visibility_function_registry['raytracing']
    for seed in range(4):
        state = reset(rng=make_rng(seed))
        check(
            state
            == reset_fs.crossing(Shape(7, 9), 2, Wall, rng=make_rng(seed)),
            'crossing through the reserved keys',
        )
        for orientation in Orientation:
            for position in [Position(0, 0), Position(6, 8), Position(3, 0),
                             state.agent.position]:
                s = State(state.grid, Agent(position, orientation))
                check(
                    observe(s, rng=make_rng(seed))
                    == observation_fs.from_visibility(
                        s,
                        area=Area((-3, 1), (-1, 2)),
                        visibility_function=functools.partial(
                            raytracing, threshold=2
                        ),
                        rng=make_rng(seed),
                    ),
                    'from_visibility through the reserved keys',
                )
    return count


EXPECTED_TRAJECTORY_DIGEST = '7421f748c8472dd3'


def main():
    configurations = load_shipped_configurations()
    print('configurations read:', len(configurations))

    print('process_reserved_keys cases:', check_process_reserved_keys())
    print('component cases:', check_component_factories(configurations))

    digest = check_configurations(configurations)
    print('trajectory digest:', digest)
    check(
        digest == EXPECTED_TRAJECTORY_DIGEST,
        f'trajectories differ from the recorded ones ({digest})',
    )
    print('rejected corruptions:', check_corruptions(configurations))
    check_ignored_parameters(configurations)
    # several environments in one process, built again after all of the above
    check(
        check_configurations(configurations, seeds=(2,), length=15)
        == check_configurations(configurations, seeds=(2,), length=15),
        'building is repeatable',
    )
    print('checks passed:', CHECKS)


if __name__ == '__main__':
    main()
