"""C12 behaviour check (refactoring C: helper inlining in terminating functions, generator merge in reach_exit_memory).

Standalone program; run as

    cd /tmp/wt3-C12 && /venv/bin/python -W ignore _seed/C/demo.py

It compares every built-in reward / terminating component (called directly, via
the factories, via reduce/reduce_sum/reduce_any/reduce_all and via complete
environments built from the shipped configurations) against an INDEPENDENT
re-implementation that lives in this file and only looks at plain tuples
extracted from the states (no library geometry / no library reward code).

Exits 0 iff all assertions hold.  Must pass on the clean tree and with the
refactoring applied.
"""
import copy
import itertools
import json
import math
import os
import random
import sys

sys.path.insert(0, os.getcwd())

import numpy as np  # noqa: E402
import numpy.random as rnd  # noqa: E402

from gym_gridverse.action import Action  # noqa: E402
from gym_gridverse.agent import Agent  # noqa: E402
from gym_gridverse.envs import reward_functions as R  # noqa: E402
from gym_gridverse.envs import terminating_functions as T  # noqa: E402
from gym_gridverse.envs.yaml.factory import factory_env_from_data  # noqa: E402
from gym_gridverse.geometry import Orientation, Position  # noqa: E402
from gym_gridverse.grid import Grid  # noqa: E402
from gym_gridverse.grid_object import (  # noqa: E402
    Beacon,
    Box,
    Color,
    Door,
    Exit,
    Floor,
    GridObject,
    Key,
    MovingObstacle,
    Telepod,
    Wall,
)
from gym_gridverse.state import State  # noqa: E402

FOCUS = 'C'  # which group of checks gets the larger random budget

CHECKS = 0


def check(condition, *info):
    global CHECKS
    CHECKS += 1
    if not condition:
        print('CHECK FAILED:', *info)
        sys.exit(1)


# --------------------------------------------------------------------------
# plain encodings:  cell = (type name, colour name, door status name or None)
#                   agent = (y, x, orientation name, held cell or None)
# --------------------------------------------------------------------------

COLORS = ['NONE', 'RED', 'GREEN', 'BLUE', 'YELLOW']
DOOR_STATUSES = ['OPEN', 'CLOSED', 'LOCKED']
ORIENTATIONS = ['FORWARD', 'RIGHT', 'BACKWARD', 'LEFT']  # clockwise
DELTAS = [(-1, 0), (0, 1), (1, 0), (0, -1)]  # same order
MOVE_OFFSETS = {
    'MOVE_FORWARD': 0,
    'MOVE_RIGHT': 1,
    'MOVE_BACKWARD': 2,
    'MOVE_LEFT': 3,
}
ACTIONS = list(Action)
check(
    sorted(a.name for a in ACTIONS)
    == sorted(
        list(MOVE_OFFSETS)
        + ['TURN_LEFT', 'TURN_RIGHT', 'ACTUATE', 'PICK_N_DROP']
    ),
    'unexpected action set',
)

ALL_TYPE_NAMES = [
    'Floor',
    'Wall',
    'Exit',
    'Door',
    'Key',
    'MovingObstacle',
    'Box',
    'Telepod',
    'Beacon',
]
TYPE_BY_NAME = {
    'Floor': Floor,
    'Wall': Wall,
    'Exit': Exit,
    'Door': Door,
    'Key': Key,
    'MovingObstacle': MovingObstacle,
    'Box': Box,
    'Telepod': Telepod,
    'Beacon': Beacon,
}


def make_object(cell):
    name, color, status = cell
    if name == 'Floor':
        return Floor()
    if name == 'Wall':
        return Wall()
    if name == 'Exit':
        return Exit(Color[color])
    if name == 'Door':
        return Door(Door.Status[status], Color[color])
    if name == 'Key':
        return Key(Color[color])
    if name == 'MovingObstacle':
        return MovingObstacle()
    if name == 'Box':
        return Box(Floor())
    if name == 'Telepod':
        return Telepod(Color[color])
    if name == 'Beacon':
        return Beacon(Color[color])
    raise AssertionError(name)


def random_cell(rng, names):
    name = rng.choice(names)
    color = 'NONE'
    status = None
    if name in ('Exit', 'Door', 'Key', 'Telepod', 'Beacon'):
        color = rng.choice(COLORS if name == 'Exit' else COLORS[1:])
    if name == 'Door':
        status = rng.choice(DOOR_STATUSES)
    return (name, color, status)


def build_state(enc, numpy_ints=False):
    cells, agent = enc
    grid = Grid([[make_object(cell) for cell in row] for row in cells])
    y, x, orientation, held = agent
    if numpy_ints:
        y, x = np.int64(y), np.int64(x)
    return State(
        grid,
        Agent(
            Position(y, x),
            Orientation[orientation],
            None if held is None else make_object(held),
        ),
    )


def encode_state(state):
    """plain encoding of a library state (attribute access only)"""
    cells = []
    for row in state.grid.objects:
        cells.append(
            [
                (
                    type(obj).__name__,
                    obj.color.name,
                    obj.state.name if type(obj).__name__ == 'Door' else None,
                )
                for obj in row
            ]
        )
    held = state.agent.grid_object
    held_enc = (
        None
        if type(held).__name__ == 'NoneGridObject'
        else (
            type(held).__name__,
            held.color.name,
            held.state.name if type(held).__name__ == 'Door' else None,
        )
    )
    agent = (
        int(state.agent.position.y),
        int(state.agent.position.x),
        state.agent.orientation.name,
        held_enc,
    )
    return (cells, agent)


# --------------------------------------------------------------------------
# the reference (independent) semantics
# --------------------------------------------------------------------------


def type_matches(cell, type_names):
    """type_names: set of type names, or None meaning `GridObject` (anything,
    including the "holding nothing" placeholder object, encoded as None)"""
    if type_names is None:
        return True
    return cell is not None and cell[0] in type_names


def in_bounds(cells, y, x):
    return 0 <= y < len(cells) and 0 <= x < len(cells[0])


def ref_attempted_cell(enc, action_name):
    cells, (y, x, orientation, _) = enc
    if action_name in MOVE_OFFSETS:
        k = (ORIENTATIONS.index(orientation) + MOVE_OFFSETS[action_name]) % 4
        y, x = y + DELTAS[k][0], x + DELTAS[k][1]
    return (y, x)


def ref_overlap(enc_next, type_names):
    cells, (y, x, _, _) = enc_next
    return type_matches(cells[y][x], type_names)


def ref_bump_into_wall(enc, action_name):
    cells = enc[0]
    y, x = ref_attempted_cell(enc, action_name)
    return in_bounds(cells, y, x) and cells[y][x][0] == 'Wall'


def ref_actuate_door(enc, action_name, enc_next, reward_open, reward_close):
    if action_name != 'ACTUATE':
        return 0.0
    cells, (y, x, orientation, _) = enc
    dy, dx = DELTAS[ORIENTATIONS.index(orientation)]
    y, x = y + dy, x + dx
    if not in_bounds(cells, y, x):
        return 0.0
    before = cells[y][x]
    after = enc_next[0][y][x]
    if before[0] != 'Door' or after[0] != 'Door':
        return 0.0
    before_open = before[2] == 'OPEN'
    after_open = after[2] == 'OPEN'
    if after_open and not before_open:
        return reward_open
    if before_open and not after_open:
        return reward_close
    return 0.0


def ref_pickndrop(enc, enc_next, type_names, reward_pick, reward_drop):
    before = type_matches(enc[1][3], type_names)
    after = type_matches(enc_next[1][3], type_names)
    if after and not before:
        return reward_pick
    if before and not after:
        return reward_drop
    return 0.0


class RefError(Exception):
    """the reference semantics says the library call must raise"""

    def __init__(self, exception_type):
        super().__init__(exception_type)
        self.exception_type = exception_type


def ref_unique(enc, type_names):
    cells = enc[0]
    found = [
        (y, x)
        for y in range(len(cells))
        for x in range(len(cells[0]))
        if type_matches(cells[y][x], type_names)
    ]
    if len(found) != 1:
        raise RefError(ValueError)
    return found[0]


def ref_distance(kind, p, q):
    dy, dx = p[0] - q[0], p[1] - q[1]
    if kind == 'manhattan':
        return abs(dy) + abs(dx)
    return math.sqrt(dy * dy + dx * dx)


def ref_proportional(enc_next, kind, type_names, per_unit):
    obj = ref_unique(enc_next, type_names)
    return per_unit * ref_distance(kind, enc_next[1][:2], obj)


def ref_sign_reward(d_prev, d_next, closer, further):
    if d_next < d_prev:
        return closer
    if d_next > d_prev:
        return further
    return 0.0


def ref_getting_closer(enc, enc_next, kind, type_names, closer, further):
    d_prev = ref_distance(kind, enc[1][:2], ref_unique(enc, type_names))
    d_next = ref_distance(
        kind, enc_next[1][:2], ref_unique(enc_next, type_names)
    )
    return ref_sign_reward(d_prev, d_next, closer, further)


def cell_blocks(cell):
    return cell[0] in ('Wall', 'Box') or (cell[0] == 'Door' and cell[2] != 'OPEN')


def ref_walk_distance(enc, type_names):
    """breadth-first walking distance from the unique object to the agent;
    the object's own cell is always the source, other cells must be walkable"""
    cells = enc[0]
    source = ref_unique(enc, type_names)
    dist = {source: 0.0}
    frontier = [source]
    while frontier:
        new_frontier = []
        for (y, x) in frontier:
            for dy, dx in DELTAS:
                n = (y + dy, x + dx)
                if (
                    in_bounds(cells, *n)
                    and n not in dist
                    and not cell_blocks(cells[n[0]][n[1]])
                ):
                    dist[n] = dist[(y, x)] + 1
                    new_frontier.append(n)
        frontier = new_frontier
    return dist.get(tuple(enc[1][:2]), float('inf'))


def ref_getting_closer_sp(enc, enc_next, type_names, closer, further):
    d_prev = ref_walk_distance(enc, type_names)
    d_next = ref_walk_distance(enc_next, type_names)
    return ref_sign_reward(d_prev, d_next, closer, further)


def ref_reach_exit_memory(enc_next, good, bad):
    cells, (y, x, _, _) = enc_next
    beacons = [cell for row in cells for cell in row if cell[0] == 'Beacon']
    if not beacons:
        raise RefError(StopIteration)
    under = cells[y][x]
    if under[0] != 'Exit':
        return 0.0
    return good if under[1] == beacons[0][1] else bad


def type_names_of(object_type):
    return None if object_type is GridObject else {object_type.__name__}


def ref_reward(spec, enc, action_name, enc_next):
    """spec = (name, kwargs) with kwargs as passed to the library"""
    name, kw = spec
    if name == 'living_reward':
        return kw.get('reward', -1.0)
    if name == 'overlap':
        on = ref_overlap(enc_next, type_names_of(kw['object_type']))
        return kw.get('reward_on', 1.0) if on else kw.get('reward_off', 0.0)
    if name == 'reach_exit':
        on = ref_overlap(enc_next, {'Exit'})
        return kw.get('reward_on', 1.0) if on else kw.get('reward_off', 0.0)
    if name == 'bump_moving_obstacle':
        on = ref_overlap(enc_next, {'MovingObstacle'})
        return kw.get('reward', -1.0) if on else 0.0
    if name == 'bump_into_wall':
        return kw.get('reward', -1.0) if ref_bump_into_wall(enc, action_name) else 0.0
    if name == 'actuate_door':
        return ref_actuate_door(
            enc,
            action_name,
            enc_next,
            kw.get('reward_open', 1.0),
            kw.get('reward_close', -1.0),
        )
    if name == 'pickndrop':
        return ref_pickndrop(
            enc,
            enc_next,
            type_names_of(kw['object_type']),
            kw.get('reward_pick', 1.0),
            kw.get('reward_drop', -1.0),
        )
    if name == 'proportional_to_distance':
        return ref_proportional(
            enc_next,
            kw.get('_kind', 'manhattan'),
            type_names_of(kw['object_type']),
            kw.get('reward_per_unit_distance', -1.0),
        )
    if name == 'getting_closer':
        return ref_getting_closer(
            enc,
            enc_next,
            kw.get('_kind', 'manhattan'),
            type_names_of(kw['object_type']),
            kw.get('reward_closer', 1.0),
            kw.get('reward_further', -1.0),
        )
    if name == 'getting_closer_shortest_path':
        return ref_getting_closer_sp(
            enc,
            enc_next,
            type_names_of(kw['object_type']),
            kw.get('reward_closer', 1.0),
            kw.get('reward_further', -1.0),
        )
    if name == 'reach_exit_memory':
        return ref_reach_exit_memory(
            enc_next, kw.get('reward_good', 1.0), kw.get('reward_bad', -1.0)
        )
    if name == 'reduce_sum':
        parts = []
        for sub in kw['_specs']:
            try:
                parts.append(ref_reward(sub, enc, action_name, enc_next))
            except RefError as error:
                # the parts are evaluated inside a generator expression:  a
                # StopIteration escaping from a part surfaces as RuntimeError
                # (PEP 479);  other exceptions propagate unchanged
                if error.exception_type is StopIteration:
                    raise RefError(RuntimeError)
                raise
        # builtin sum (compensated float summation on recent Pythons), as
        # documented:  "sum of the evaluated input reward functions"
        return sum(parts)
    raise AssertionError(name)


def ref_termination(spec, enc, action_name, enc_next):
    name, kw = spec
    if name == 'overlap':
        return ref_overlap(enc_next, type_names_of(kw['object_type']))
    if name == 'reach_exit':
        return ref_overlap(enc_next, {'Exit'})
    if name == 'bump_moving_obstacle':
        return ref_overlap(enc_next, {'MovingObstacle'})
    if name == 'bump_into_wall':
        return ref_bump_into_wall(enc, action_name)
    if name == 'reduce_any':
        result = False
        for sub in kw['_specs']:
            result = result or ref_termination(sub, enc, action_name, enc_next)
        return result
    if name == 'reduce_all':
        result = True
        for sub in kw['_specs']:
            result = result and ref_termination(sub, enc, action_name, enc_next)
        return result
    raise AssertionError(name)


# --------------------------------------------------------------------------
# building library functions from specs (directly and through the factories)
# --------------------------------------------------------------------------

DISTANCE_FUNCTIONS = {
    'manhattan': Position.manhattan_distance,
    'euclidean': Position.euclidean_distance,
}


def lib_kwargs(kw):
    out = {k: v for k, v in kw.items() if not k.startswith('_')}
    if '_kind' in kw:
        out['distance_function'] = DISTANCE_FUNCTIONS[kw['_kind']]
    return out


def lib_reward(spec, via_factory):
    name, kw = spec
    kwargs = lib_kwargs(kw)
    if name == 'reduce_sum':
        kwargs['reward_functions'] = [
            lib_reward(sub, via_factory) for sub in kw['_specs']
        ]
    if via_factory:
        return R.factory(name, **kwargs)
    function = getattr(R, name)
    return lambda s, a, n, rng=None: function(s, a, n, rng=rng, **kwargs)


def lib_termination(spec, via_factory):
    name, kw = spec
    kwargs = lib_kwargs(kw)
    if name in ('reduce_any', 'reduce_all'):
        kwargs['terminating_functions'] = [
            lib_termination(sub, via_factory) for sub in kw['_specs']
        ]
    if via_factory:
        return T.factory(name, **kwargs)
    function = getattr(T, name)
    return lambda s, a, n, rng=None: function(s, a, n, rng=rng, **kwargs)


def same_value(got, want):
    """exact agreement, treating nan == nan and accepting numpy scalars"""
    if isinstance(want, bool):
        return isinstance(got, (bool, np.bool_)) and bool(got) == want
    if isinstance(got, (bool, np.bool_)):
        return False
    got, want = float(got), float(want)
    return got == want or (math.isnan(got) and math.isnan(want))


def compare(kind, spec, state, action, next_state, enc, enc_next, via_factory):
    """calls the library on the triple and compares with the reference"""
    if kind == 'reward':
        function = lib_reward(spec, via_factory)
        reference = ref_reward
    else:
        function = lib_termination(spec, via_factory)
        reference = ref_termination

    before = (copy.deepcopy(enc), copy.deepcopy(enc_next))
    rng = rnd.default_rng(12345)
    rng_state = copy.deepcopy(rng.bit_generator.state)

    try:
        want = reference(spec, enc, action.name, enc_next)
    except RefError as error:
        want = error

    results = []
    for use_rng in (None, rng, None):
        try:
            got = function(state, action, next_state, rng=use_rng)
        except Exception as error:  # noqa
            got = error
        results.append(got)

    for got in results:
        if isinstance(want, RefError):
            check(
                type(got) is want.exception_type,
                'expected exception',
                want.exception_type,
                'got',
                repr(got),
                spec,
                enc,
                action,
                enc_next,
            )
        else:
            check(
                not isinstance(got, Exception) and same_value(got, want),
                'value mismatch',
                kind,
                spec,
                'got',
                repr(got),
                'want',
                repr(want),
                enc,
                action,
                enc_next,
            )

    # determinism, purity, no random draws
    check(
        (encode_state(state), encode_state(next_state)) == before,
        'states were modified',
        spec,
    )
    check(rng.bit_generator.state == rng_state, 'rng was consumed', spec)
    return results[0]


# --------------------------------------------------------------------------
# random triples
# --------------------------------------------------------------------------


def random_enc(rng, height, width, names, unique=()):
    """random encoding;  `unique` type names are placed exactly once"""
    fill = [n for n in names if n not in unique]
    cells = [
        [random_cell(rng, fill) for _ in range(width)] for _ in range(height)
    ]
    free = [(y, x) for y in range(height) for x in range(width)]
    rng.shuffle(free)
    for name in unique:
        if not free:
            break
        y, x = free.pop()
        cells[y][x] = random_cell(rng, [name])
    held = rng.choice(
        [None, None, random_cell(rng, ['Key']), random_cell(rng, names)]
    )
    agent = (
        rng.randrange(height),
        rng.randrange(width),
        rng.choice(ORIENTATIONS),
        held,
    )
    return (cells, agent)


def mutate_enc(rng, enc, action_name, names):
    """a `next` encoding correlated with enc (loosely mimics dynamics, but
    also produces impossible transitions on purpose)"""
    cells, (y, x, orientation, held) = copy.deepcopy(enc)
    height, width = len(cells), len(cells[0])
    roll = rng.random()
    if action_name in MOVE_OFFSETS and roll < 0.7:
        ny, nx = ref_attempted_cell(enc, action_name)
        if in_bounds(cells, ny, nx):
            y, x = ny, nx
    elif roll < 0.15:
        y, x = rng.randrange(height), rng.randrange(width)
    if action_name.startswith('TURN') or rng.random() < 0.1:
        orientation = rng.choice(ORIENTATIONS)
    # toggle / replace the cell in front
    dy, dx = DELTAS[ORIENTATIONS.index(enc[1][2])]
    fy, fx = enc[1][0] + dy, enc[1][1] + dx
    if in_bounds(cells, fy, fx) and rng.random() < 0.6:
        name, color, status = cells[fy][fx]
        if name == 'Door' and rng.random() < 0.8:
            cells[fy][fx] = (name, color, rng.choice(DOOR_STATUSES))
        elif rng.random() < 0.3:
            cells[fy][fx] = random_cell(rng, names)
    if rng.random() < 0.4:
        held = rng.choice(
            [None, random_cell(rng, ['Key']), random_cell(rng, names)]
        )
    if rng.random() < 0.1:
        ry, rx = rng.randrange(height), rng.randrange(width)
        cells[ry][rx] = random_cell(rng, names)
    return (cells, (y, x, orientation, held))


OBJECT_TYPES = [Exit, Key, Wall, Beacon, MovingObstacle, Door, Floor, GridObject]
REWARD_VALUES = [1.0, -1.0, 0.0, 0.25, -3.5, 7, float('inf')]


def random_reward_spec(rng, depth=0):
    names = [
        'living_reward',
        'overlap',
        'reach_exit',
        'bump_moving_obstacle',
        'bump_into_wall',
        'actuate_door',
        'pickndrop',
        'proportional_to_distance',
        'getting_closer',
        'getting_closer_shortest_path',
        'reach_exit_memory',
    ]
    if depth < 2:
        names.append('reduce_sum')
    name = rng.choice(names)
    value = lambda: rng.choice(REWARD_VALUES)  # noqa: E731
    finite = lambda: rng.choice(REWARD_VALUES[:-1])  # noqa: E731
    kw = {}

    def maybe(key, make):
        if rng.random() < 0.7:
            kw[key] = make()

    if name == 'living_reward':
        maybe('reward', value)
    elif name == 'overlap':
        kw['object_type'] = rng.choice(OBJECT_TYPES)
        maybe('reward_on', value)
        maybe('reward_off', value)
    elif name == 'reach_exit':
        maybe('reward_on', value)
        maybe('reward_off', value)
    elif name in ('bump_moving_obstacle', 'bump_into_wall'):
        maybe('reward', value)
    elif name == 'actuate_door':
        maybe('reward_open', value)
        maybe('reward_close', value)
    elif name == 'pickndrop':
        kw['object_type'] = rng.choice(OBJECT_TYPES)
        maybe('reward_pick', value)
        maybe('reward_drop', value)
    elif name == 'proportional_to_distance':
        kw['object_type'] = rng.choice(OBJECT_TYPES[:6])
        maybe('_kind', lambda: rng.choice(['manhattan', 'euclidean']))
        # finite only:  inf * 0 distance would be nan on both sides anyway,
        # but keep composite sums comparable
        maybe('reward_per_unit_distance', finite)
    elif name == 'getting_closer':
        kw['object_type'] = rng.choice(OBJECT_TYPES[:6])
        maybe('_kind', lambda: rng.choice(['manhattan', 'euclidean']))
        maybe('reward_closer', value)
        maybe('reward_further', value)
    elif name == 'getting_closer_shortest_path':
        kw['object_type'] = rng.choice(OBJECT_TYPES[:6])
        maybe('reward_closer', value)
        maybe('reward_further', value)
    elif name == 'reach_exit_memory':
        maybe('reward_good', value)
        maybe('reward_bad', value)
    elif name == 'reduce_sum':
        kw['_specs'] = [
            random_reward_spec(rng, depth + 1)
            for _ in range(rng.randrange(0, 4))
        ]
    return (name, kw)


def random_termination_spec(rng, depth=0):
    names = ['overlap', 'reach_exit', 'bump_moving_obstacle', 'bump_into_wall']
    if depth < 2:
        names += ['reduce_any', 'reduce_all']
    name = rng.choice(names)
    kw = {}
    if name == 'overlap':
        kw['object_type'] = rng.choice(OBJECT_TYPES)
    elif name in ('reduce_any', 'reduce_all'):
        kw['_specs'] = [
            random_termination_spec(rng, depth + 1)
            for _ in range(rng.randrange(0, 4))
        ]
    return (name, kw)


def spec_raises(spec, enc, action_name, enc_next, reference):
    try:
        reference(spec, enc, action_name, enc_next)
    except RefError:
        return True
    return False


def random_triples(seed, count, reward_focus=None, termination_focus=None):
    """random (state, action, next state) triples x random specs"""
    rng = random.Random(seed)
    raised = 0
    for i in range(count):
        height, width = rng.randrange(1, 6), rng.randrange(1, 6)
        names = rng.choice(
            [
                ALL_TYPE_NAMES,
                ['Floor', 'Floor', 'Floor', 'Wall', 'Door'],
                ['Floor', 'Wall'],
                ['Floor', 'Wall', 'MovingObstacle', 'Exit'],
                ['Floor', 'Wall', 'Exit', 'Beacon'],
            ]
        )
        unique = rng.choice(
            [(), (), ('Exit',), ('Exit', 'Beacon'), ('Key', 'Exit', 'Door')]
        )
        enc = random_enc(rng, height, width, names, unique)
        action = rng.choice(ACTIONS)
        if rng.random() < 0.75:
            enc_next = mutate_enc(rng, enc, action.name, names)
        else:
            enc_next = random_enc(rng, height, width, names, unique)
        numpy_ints = rng.random() < 0.3
        state = build_state(enc, numpy_ints)
        next_state = build_state(enc_next, numpy_ints)
        check(encode_state(state) == enc, 'encoding round trip')
        check(encode_state(next_state) == enc_next, 'encoding round trip')

        via_factory = rng.random() < 0.5

        spec = random_reward_spec(rng)
        if reward_focus and rng.random() < 0.7:
            while spec[0] not in reward_focus:
                spec = random_reward_spec(rng)
        raised += spec_raises(spec, enc, action.name, enc_next, ref_reward)
        compare(
            'reward', spec, state, action, next_state, enc, enc_next, via_factory
        )

        spec = random_termination_spec(rng)
        if termination_focus and rng.random() < 0.7:
            while spec[0] not in termination_focus:
                spec = random_termination_spec(rng)
        got = compare(
            'termination',
            spec,
            state,
            action,
            next_state,
            enc,
            enc_next,
            via_factory,
        )
        if not numpy_ints and spec[0] != 'reduce_any' and spec[0] != 'reduce_all':
            check(type(got) is bool, 'termination type', spec, type(got))
    return raised


# --------------------------------------------------------------------------
# exhaustive small-scale enumerations
# --------------------------------------------------------------------------


def exhaustive_door_and_pick():
    """all door before/after combinations x actions x orientations (incl. the
    front cell being outside of the grid), all held-object combinations"""
    front_cells = [('Floor', 'NONE', None), ('Wall', 'NONE', None)] + [
        ('Door', 'RED', status) for status in DOOR_STATUSES
    ]
    params = [{}, {'reward_open': 2.5, 'reward_close': -0.75}, {'reward_open': 0.0}]
    for before, after in itertools.product(front_cells, repeat=2):
        for orientation in ORIENTATIONS:
            # 3x3 grid with the agent in the centre: front inside the grid;
            # 1x1 grid: front outside of the grid
            for size in (3, 1):
                centre = size // 2
                dy, dx = DELTAS[ORIENTATIONS.index(orientation)]
                cells = [[('Floor', 'NONE', None)] * size for _ in range(size)]
                cells_next = [list(row) for row in cells]
                cells = [list(row) for row in cells]
                if size == 3:
                    cells[centre + dy][centre + dx] = before
                    cells_next[centre + dy][centre + dx] = after
                enc = (cells, (centre, centre, orientation, None))
                enc_next = (cells_next, (centre, centre, orientation, None))
                state, next_state = build_state(enc), build_state(enc_next)
                for action in ACTIONS:
                    for kw in params:
                        for via_factory in (False, True):
                            compare(
                                'reward',
                                ('actuate_door', kw),
                                state,
                                action,
                                next_state,
                                enc,
                                enc_next,
                                via_factory,
                            )

    held_options = [
        None,
        ('Key', 'RED', None),
        ('Key', 'BLUE', None),
        ('Box', 'NONE', None),
        ('MovingObstacle', 'NONE', None),
    ]
    params = [{}, {'reward_pick': 0.5, 'reward_drop': -0.25}, {'reward_drop': 3}]
    cells = [[('Floor', 'NONE', None)]]
    for before, after in itertools.product(held_options, repeat=2):
        enc = (cells, (0, 0, 'FORWARD', before))
        enc_next = (cells, (0, 0, 'LEFT', after))
        state, next_state = build_state(enc), build_state(enc_next)
        for object_type in (Key, Box, MovingObstacle, Exit, GridObject):
            for kw in params:
                kw = dict(kw, object_type=object_type)
                for action in ACTIONS:
                    compare(
                        'reward',
                        ('pickndrop', kw),
                        state,
                        action,
                        next_state,
                        enc,
                        enc_next,
                        action is Action.ACTUATE,
                    )


def exhaustive_bumps_and_overlaps():
    """every agent pose x action on a few small grids (incl. 1xN grids where
    most moves leave the grid), for wall bumps and overlaps, rewards and
    terminations"""
    f, w, e, m = (
        ('Floor', 'NONE', None),
        ('Wall', 'NONE', None),
        ('Exit', 'NONE', None),
        ('MovingObstacle', 'NONE', None),
    )
    grids = [
        [[f]],
        [[w]],
        [[f, w]],
        [[w], [f], [e]],
        [[w, f, w], [f, f, m], [e, w, f]],
        [[w, w, w, w], [w, f, e, w], [w, m, f, w], [w, w, w, w]],
    ]
    reward_specs = [
        ('bump_into_wall', {}),
        ('bump_into_wall', {'reward': -0.125}),
        ('reach_exit', {}),
        ('reach_exit', {'reward_on': 5.0, 'reward_off': -0.5}),
        ('bump_moving_obstacle', {}),
        ('bump_moving_obstacle', {'reward': 4}),
        ('overlap', {'object_type': Wall, 'reward_on': 2.0}),
        ('overlap', {'object_type': Floor}),
    ]
    termination_specs = [
        ('bump_into_wall', {}),
        ('reach_exit', {}),
        ('bump_moving_obstacle', {}),
        ('overlap', {'object_type': Wall}),
        ('overlap', {'object_type': GridObject}),
        (
            'reduce_any',
            {
                '_specs': [
                    ('reach_exit', {}),
                    ('bump_moving_obstacle', {}),
                    ('bump_into_wall', {}),
                ]
            },
        ),
        (
            'reduce_all',
            {'_specs': [('reach_exit', {}), ('bump_into_wall', {})]},
        ),
    ]
    for cells in grids:
        poses = [
            (y, x, orientation, None)
            for y in range(len(cells))
            for x in range(len(cells[0]))
            for orientation in ORIENTATIONS
        ]
        for pose in poses:
            enc = (cells, pose)
            state = build_state(enc)
            for action in ACTIONS:
                # next poses:  where the move would lead (if inside), staying
                # put, and every other cell for small grids
                ny, nx = ref_attempted_cell(enc, action.name)
                next_poses = {pose}
                if in_bounds(cells, ny, nx):
                    next_poses.add((ny, nx, pose[2], None))
                if len(poses) <= 12:
                    next_poses.update(poses)
                for next_pose in sorted(next_poses, key=repr):
                    enc_next = (cells, next_pose)
                    next_state = build_state(enc_next)
                    for spec in reward_specs:
                        compare(
                            'reward', spec, state, action, next_state,
                            enc, enc_next, False,
                        )
                    for spec in termination_specs:
                        got = compare(
                            'termination', spec, state, action, next_state,
                            enc, enc_next, True,
                        )
                        if not spec[0].startswith('reduce'):
                            check(type(got) is bool, 'termination type', spec)
                    # "agree with each other":  exit reward <=> exit termination
                    paid = R.reach_exit(
                        state, action, next_state, reward_on=5.0, reward_off=0.0
                    )
                    done = T.reach_exit(state, action, next_state)
                    check((paid == 5.0) == bool(done), 'exit reward/termination')
                    check(paid in (5.0, 0.0), 'exit reward value')


def exhaustive_distances():
    """all agent positions before/after x all object positions on small grids
    with a few wall layouts, for the three distance based rewards"""
    f, w = ('Floor', 'NONE', None), ('Wall', 'NONE', None)
    layouts = [
        [[f, f, f], [f, f, f]],
        [[f, w, f], [f, w, f], [f, f, f]],
        [[f, f, f, f], [w, w, w, f], [f, f, f, f]],
        [[f, w, f]],  # disconnected:  infinite walking distances
    ]
    specs = [
        ('getting_closer', {'object_type': Exit}),
        (
            'getting_closer',
            {
                'object_type': Exit,
                '_kind': 'euclidean',
                'reward_closer': 0.2,
                'reward_further': -0.2,
            },
        ),
        ('getting_closer_shortest_path', {'object_type': Exit}),
        (
            'getting_closer_shortest_path',
            {'object_type': Exit, 'reward_closer': 3.0, 'reward_further': -7.0},
        ),
        ('proportional_to_distance', {'object_type': Exit}),
        (
            'proportional_to_distance',
            {
                'object_type': Exit,
                '_kind': 'euclidean',
                'reward_per_unit_distance': 0.3,
            },
        ),
    ]
    for layout in layouts:
        positions = [
            (y, x) for y in range(len(layout)) for x in range(len(layout[0]))
        ]
        for exit_position in positions:
            cells = [list(row) for row in layout]
            cells[exit_position[0]][exit_position[1]] = ('Exit', 'NONE', None)
            for p, q in itertools.product(positions, repeat=2):
                enc = (cells, (p[0], p[1], 'FORWARD', None))
                enc_next = (cells, (q[0], q[1], 'RIGHT', None))
                state, next_state = build_state(enc), build_state(enc_next)
                for i, spec in enumerate(specs):
                    compare(
                        'reward', spec, state, Action.MOVE_FORWARD, next_state,
                        enc, enc_next, i % 2 == 0,
                    )

    # the object may be at different places in state and next state, be missing
    # or be duplicated (-> ValueError), be the agent's own cell, ...
    e = ('Exit', 'NONE', None)
    variants = [
        [[e, f, f]],
        [[f, f, e]],
        [[f, f, f]],
        [[e, f, e]],
        [[e, w, f]],
    ]
    for cells, cells_next in itertools.product(variants, repeat=2):
        for p, q in itertools.product(range(3), repeat=2):
            enc = (cells, (0, p, 'LEFT', None))
            enc_next = (cells_next, (0, q, 'LEFT', None))
            state, next_state = build_state(enc), build_state(enc_next)
            for spec in specs:
                compare(
                    'reward', spec, state, Action.MOVE_LEFT, next_state,
                    enc, enc_next, True,
                )


def exhaustive_memory():
    """all exit / beacon colour combinations, agent on/off the exits, no
    beacon (-> StopIteration), several beacons (first in row-major order)"""
    f = ('Floor', 'NONE', None)
    colors = COLORS[1:]
    specs = [
        ('reach_exit_memory', {}),
        ('reach_exit_memory', {'reward_good': 5.0, 'reward_bad': -5.0}),
    ]
    for c1, c2, cb in itertools.product(colors, repeat=3):
        for second_beacon in (None, 'RED', 'BLUE'):
            row = [
                ('Exit', c1, None),
                ('Beacon', cb, None),
                f,
                ('Exit', c2, None),
                f if second_beacon is None else ('Beacon', second_beacon, None),
            ]
            for cells in ([row], [[cell] for cell in row], [row[::-1]]):
                height, width = len(cells), len(cells[0])
                for y in range(height):
                    for x in range(width):
                        enc = (cells, (0, 0, 'FORWARD', None))
                        enc_next = (cells, (y, x, 'FORWARD', None))
                        state = build_state(enc)
                        next_state = build_state(enc_next)
                        for i, spec in enumerate(specs):
                            got = compare(
                                'reward', spec, state, Action.MOVE_RIGHT,
                                next_state, enc, enc_next, i == 1,
                            )
                            done = T.reach_exit(
                                state, Action.MOVE_RIGHT, next_state
                            )
                            check(
                                (got != 0.0) == bool(done),
                                'memory reward/termination',
                            )
    # no beacon at all
    for cells in ([[f, ('Exit', 'RED', None)]], [[f]]):
        for x in range(len(cells[0])):
            enc = (cells, (0, x, 'FORWARD', None))
            state = build_state(enc)
            for spec in specs:
                compare(
                    'reward', spec, state, Action.TURN_LEFT, state, enc, enc, False
                )


# --------------------------------------------------------------------------
# composition protocol: laziness, order, rng forwarding
# --------------------------------------------------------------------------


def composition_protocol():
    enc = ([[('Floor', 'NONE', None)]], (0, 0, 'FORWARD', None))
    state = build_state(enc)
    log = []

    def probe(tag, value):
        def function(s, a, n, *, rng=None):
            log.append((tag, s is state, a, n is state, rng))
            return value

        return function

    token = rnd.default_rng(7)

    # rewards: every part evaluated once, in order, with the rng forwarded
    parts = [probe('a', 1.5), probe('b', -0.25), probe('c', 10)]
    for function in (
        lambda **kw: R.reduce_sum(
            state, Action.ACTUATE, state, reward_functions=parts, **kw
        ),
        lambda **kw: R.factory('reduce_sum', reward_functions=parts)(
            state, Action.ACTUATE, state, **kw
        ),
        lambda **kw: R.reduce(
            state, Action.ACTUATE, state, reward_functions=parts,
            reduction=sum, **kw
        ),
    ):
        for rng in (None, token):
            del log[:]
            check(function(rng=rng) == 0 + 1.5 + -0.25 + 10, 'reduce_sum value')
            check(
                log == [(t, True, Action.ACTUATE, True, rng) for t in 'abc'],
                'reduce_sum protocol',
                log,
            )
    check(
        R.reduce_sum(state, Action.ACTUATE, state, reward_functions=[]) == 0,
        'empty sum',
    )
    check(
        R.reduce(
            state, Action.ACTUATE, state, reward_functions=parts, reduction=max
        )
        == 10,
        'reduce with max',
    )

    # terminations: any / all are lazy and ordered
    for values, any_calls, all_calls in [
        ([False, False, False], 3, 1),
        ([False, True, False], 2, 1),
        ([True, True, True], 1, 3),
        ([True, False, True], 1, 2),
        ([], 0, 0),
    ]:
        parts = [probe(str(i), v) for i, v in enumerate(values)]
        for name, reduction, calls in (
            ('reduce_any', any, any_calls),
            ('reduce_all', all, all_calls),
        ):
            for function in (
                lambda **kw: getattr(T, name)(
                    state, Action.PICK_N_DROP, state,
                    terminating_functions=parts, **kw
                ),
                lambda **kw: T.factory(name, terminating_functions=parts)(
                    state, Action.PICK_N_DROP, state, **kw
                ),
                lambda **kw: T.reduce(
                    state, Action.PICK_N_DROP, state,
                    terminating_functions=parts, reduction=reduction, **kw
                ),
            ):
                for rng in (None, token):
                    del log[:]
                    got = function(rng=rng)
                    check(got is reduction(values), name, values, got)
                    check(
                        log
                        == [
                            (str(i), True, Action.PICK_N_DROP, True, rng)
                            for i in range(calls)
                        ],
                        'lazy protocol',
                        name,
                        values,
                        log,
                    )

    # registries and factories keep their public names
    for name in (
        'reduce', 'reduce_sum', 'overlap', 'living_reward', 'reach_exit',
        'bump_moving_obstacle', 'proportional_to_distance', 'getting_closer',
        'getting_closer_shortest_path', 'bump_into_wall', 'actuate_door',
        'pickndrop', 'reach_exit_memory',
    ):
        check(R.reward_function_registry[name] is getattr(R, name), name)
    for name in (
        'reduce', 'reduce_any', 'reduce_all', 'overlap', 'reach_exit',
        'bump_moving_obstacle', 'bump_into_wall',
    ):
        check(T.terminating_function_registry[name] is getattr(T, name), name)
    check(len(R.reward_function_registry) == 13, 'reward registry size')
    check(len(T.terminating_function_registry) == 7, 'termination registry size')
    for factory in (R.factory, T.factory):
        try:
            factory('no_such_function')
        except ValueError as error:
            check(isinstance(error.__cause__, KeyError), 'factory error cause')
        else:
            check(False, 'factory accepted an unknown name')


# --------------------------------------------------------------------------
# trajectories of the shipped configurations (real dynamics)
# --------------------------------------------------------------------------

# shipped yaml/*.yaml files, transcribed to JSON at authoring time (PyYAML is
# not available at run time)
SHIPPED_JSON = {
    'gv_crossing.5x5.yaml': '{"state_space":{"objects":["Wall","Floor","Exit"],"colors":["NONE"]},"action_space":["MOVE_FORWARD","MOVE_BACKWARD","MOVE_LEFT","MOVE_RIGHT","TURN_LEFT","TURN_RIGHT"],"observation_space":{"objects":["Wall","Floor","Exit"],"colors":["NONE"]},"reset_function":{"name":"crossing","shape":[5,5],"num_rivers":1,"object_type":"Wall"},"transition_functions":[{"name":"move_agent"},{"name":"turn_agent"}],"reward_functions":[{"name":"reach_exit","reward_on":5.0,"reward_off":0.0},{"name":"getting_closer","distance_function":"manhattan","object_type":"Exit","reward_closer":0.2,"reward_further":-0.2},{"name":"living_reward","reward":-0.05}],"observation_function":{"name":"partially_occluded","area":[[-6,0],[-3,3]]},"terminating_function":{"name":"reach_exit"}}',
    'gv_crossing.7x7.yaml': '{"state_space":{"objects":["Wall","Floor","Exit"],"colors":["NONE"]},"action_space":["MOVE_FORWARD","MOVE_BACKWARD","MOVE_LEFT","MOVE_RIGHT","TURN_LEFT","TURN_RIGHT"],"observation_space":{"objects":["Wall","Floor","Exit"],"colors":["NONE"]},"reset_function":{"name":"crossing","shape":[7,7],"num_rivers":2,"object_type":"Wall"},"transition_functions":[{"name":"move_agent"},{"name":"turn_agent"}],"reward_functions":[{"name":"reach_exit","reward_on":5.0,"reward_off":0.0},{"name":"getting_closer","distance_function":"manhattan","object_type":"Exit","reward_closer":0.2,"reward_further":-0.2},{"name":"living_reward","reward":-0.05}],"observation_function":{"name":"partially_occluded","area":[[-6,0],[-3,3]]},"terminating_function":{"name":"reach_exit"}}',
    'gv_dynamic_obstacles.5x5.yaml': '{"state_space":{"objects":["Wall","Floor","Exit","MovingObstacle"],"colors":["NONE"]},"action_space":["MOVE_FORWARD","MOVE_BACKWARD","MOVE_LEFT","MOVE_RIGHT","TURN_LEFT","TURN_RIGHT"],"observation_space":{"objects":["Wall","Floor","Exit","MovingObstacle"],"colors":["NONE"]},"reset_function":{"name":"dynamic_obstacles","shape":[5,5],"num_obstacles":1,"random_agent":false},"transition_functions":[{"name":"move_agent"},{"name":"turn_agent"},{"name":"move_obstacles"}],"reward_functions":[{"name":"reach_exit","reward_on":5.0,"reward_off":0.0},{"name":"bump_moving_obstacle","reward":-1.0},{"name":"bump_into_wall","reward":-1.0},{"name":"getting_closer","distance_function":"manhattan","object_type":"Exit","reward_closer":0.2,"reward_further":-0.2},{"name":"living_reward","reward":-0.05}],"observation_function":{"name":"partially_occluded","area":[[-6,0],[-3,3]]},"terminating_function":{"name":"reduce_any","terminating_functions":[{"name":"reach_exit"},{"name":"bump_moving_obstacle"},{"name":"bump_into_wall"}]}}',
    'gv_dynamic_obstacles.7x7.yaml': '{"state_space":{"objects":["Wall","Floor","Exit","MovingObstacle"],"colors":["NONE"]},"action_space":["MOVE_FORWARD","MOVE_BACKWARD","MOVE_LEFT","MOVE_RIGHT","TURN_LEFT","TURN_RIGHT"],"observation_space":{"objects":["Wall","Floor","Exit","MovingObstacle"],"colors":["NONE"]},"reset_function":{"name":"dynamic_obstacles","shape":[7,7],"num_obstacles":2,"random_agent":false},"transition_functions":[{"name":"move_agent"},{"name":"turn_agent"},{"name":"move_obstacles"}],"reward_functions":[{"name":"reach_exit","reward_on":5.0,"reward_off":0.0},{"name":"bump_moving_obstacle","reward":-1.0},{"name":"bump_into_wall","reward":-1.0},{"name":"getting_closer","distance_function":"manhattan","object_type":"Exit","reward_closer":0.2,"reward_further":-0.2},{"name":"living_reward","reward":-0.05}],"observation_function":{"name":"partially_occluded","area":[[-6,0],[-3,3]]},"terminating_function":{"name":"reduce_any","terminating_functions":[{"name":"reach_exit"},{"name":"bump_moving_obstacle"},{"name":"bump_into_wall"}]}}',
    'gv_empty.4x4.yaml': '{"state_space":{"objects":["Wall","Floor","Exit"],"colors":["NONE"]},"action_space":["MOVE_FORWARD","MOVE_BACKWARD","MOVE_LEFT","MOVE_RIGHT","TURN_LEFT","TURN_RIGHT"],"observation_space":{"objects":["Wall","Floor","Exit"],"colors":["NONE"]},"reset_function":{"name":"empty","shape":[4,4],"random_agent":true},"transition_functions":[{"name":"move_agent"},{"name":"turn_agent"}],"reward_functions":[{"name":"reach_exit","reward_on":5.0,"reward_off":0.0},{"name":"getting_closer","distance_function":"manhattan","object_type":"Exit","reward_closer":0.2,"reward_further":-0.2},{"name":"living_reward","reward":-0.05}],"observation_function":{"name":"partially_occluded","area":[[-6,0],[-3,3]]},"terminating_function":{"name":"reach_exit"}}',
    'gv_empty.8x8.yaml': '{"state_space":{"objects":["Wall","Floor","Exit"],"colors":["NONE"]},"action_space":["MOVE_FORWARD","MOVE_BACKWARD","MOVE_LEFT","MOVE_RIGHT","TURN_LEFT","TURN_RIGHT"],"observation_space":{"objects":["Wall","Floor","Exit"],"colors":["NONE"]},"reset_function":{"name":"empty","shape":[8,8],"random_agent":true},"transition_functions":[{"name":"move_agent"},{"name":"turn_agent"}],"reward_functions":[{"name":"reach_exit","reward_on":5.0,"reward_off":0.0},{"name":"getting_closer","distance_function":"manhattan","object_type":"Exit","reward_closer":0.2,"reward_further":-0.2},{"name":"living_reward","reward":-0.05}],"observation_function":{"name":"partially_occluded","area":[[-6,0],[-3,3]]},"terminating_function":{"name":"reach_exit"}}',
    'gv_four_rooms.7x7.yaml': '{"state_space":{"objects":["Wall","Floor","Exit"],"colors":["NONE"]},"action_space":["MOVE_FORWARD","MOVE_BACKWARD","MOVE_LEFT","MOVE_RIGHT","TURN_LEFT","TURN_RIGHT"],"observation_space":{"objects":["Wall","Floor","Exit"],"colors":["NONE"]},"reset_function":{"name":"rooms","shape":[7,7],"layout":[2,2]},"transition_functions":[{"name":"move_agent"},{"name":"turn_agent"}],"reward_functions":[{"name":"reach_exit","reward_on":5.0,"reward_off":0.0},{"name":"getting_closer","distance_function":"manhattan","object_type":"Exit","reward_closer":0.2,"reward_further":-0.2},{"name":"living_reward","reward":-0.05}],"observation_function":{"name":"partially_occluded","area":[[-6,0],[-3,3]]},"terminating_function":{"name":"reach_exit"}}',
    'gv_four_rooms.9x9.yaml': '{"state_space":{"objects":["Wall","Floor","Exit"],"colors":["NONE"]},"action_space":["MOVE_FORWARD","MOVE_BACKWARD","MOVE_LEFT","MOVE_RIGHT","TURN_LEFT","TURN_RIGHT"],"observation_space":{"objects":["Wall","Floor","Exit"],"colors":["NONE"]},"reset_function":{"name":"rooms","shape":[9,9],"layout":[2,2]},"transition_functions":[{"name":"move_agent"},{"name":"turn_agent"}],"reward_functions":[{"name":"reach_exit","reward_on":5.0,"reward_off":0.0},{"name":"getting_closer","distance_function":"manhattan","object_type":"Exit","reward_closer":0.2,"reward_further":-0.2},{"name":"living_reward","reward":-0.05}],"observation_function":{"name":"partially_occluded","area":[[-6,0],[-3,3]]},"terminating_function":{"name":"reach_exit"}}',
    'gv_keydoor.5x5.yaml': '{"state_space":{"objects":["Wall","Floor","Exit","Door","Key"],"colors":["NONE","YELLOW"]},"observation_space":{"objects":["Wall","Floor","Exit","Door","Key"],"colors":["NONE","YELLOW"]},"reset_function":{"name":"keydoor","shape":[5,5]},"transition_functions":[{"name":"move_agent"},{"name":"turn_agent"},{"name":"actuate_door"},{"name":"pickndrop"}],"reward_functions":[{"name":"reach_exit","reward_on":5.0,"reward_off":0.0},{"name":"pickndrop","object_type":"Key","reward_pick":1.0,"reward_drop":-1.0},{"name":"actuate_door","reward_open":1.0,"reward_close":-1.0},{"name":"getting_closer","distance_function":"manhattan","object_type":"Exit","reward_closer":0.2,"reward_further":-0.2},{"name":"living_reward","reward":-0.05}],"observation_function":{"name":"partially_occluded","area":[[-6,0],[-3,3]]},"terminating_function":{"name":"reach_exit"}}',
    'gv_keydoor.7x7.yaml': '{"state_space":{"objects":["Wall","Floor","Exit","Door","Key"],"colors":["NONE","YELLOW"]},"observation_space":{"objects":["Wall","Floor","Exit","Door","Key"],"colors":["NONE","YELLOW"]},"reset_function":{"name":"keydoor","shape":[7,7]},"transition_functions":[{"name":"move_agent"},{"name":"turn_agent"},{"name":"actuate_door"},{"name":"pickndrop"}],"reward_functions":[{"name":"reach_exit","reward_on":5.0,"reward_off":0.0},{"name":"pickndrop","object_type":"Key","reward_pick":1.0,"reward_drop":-1.0},{"name":"actuate_door","reward_open":1.0,"reward_close":-1.0},{"name":"getting_closer","distance_function":"manhattan","object_type":"Exit","reward_closer":0.2,"reward_further":-0.2},{"name":"living_reward","reward":-0.05}],"observation_function":{"name":"partially_occluded","area":[[-6,0],[-3,3]]},"terminating_function":{"name":"reach_exit"}}',
    'gv_keydoor.9x9.yaml': '{"state_space":{"objects":["Wall","Floor","Exit","Door","Key"],"colors":["NONE","YELLOW"]},"observation_space":{"objects":["Wall","Floor","Exit","Door","Key"],"colors":["NONE","YELLOW"]},"reset_function":{"name":"keydoor","shape":[9,9]},"transition_functions":[{"name":"move_agent"},{"name":"turn_agent"},{"name":"actuate_door"},{"name":"pickndrop"}],"reward_functions":[{"name":"reach_exit","reward_on":5.0,"reward_off":0.0},{"name":"pickndrop","object_type":"Key","reward_pick":1.0,"reward_drop":-1.0},{"name":"actuate_door","reward_open":1.0,"reward_close":-1.0},{"name":"getting_closer","distance_function":"manhattan","object_type":"Exit","reward_closer":0.2,"reward_further":-0.2},{"name":"living_reward","reward":-0.05}],"observation_function":{"name":"partially_occluded","area":[[-6,0],[-3,3]]},"terminating_function":{"name":"reach_exit"}}',
    'gv_memory.5x5.yaml': '{"state_space":{"objects":["Wall","Floor","Exit","Beacon"],"colors":["NONE","RED","GREEN","BLUE","YELLOW"]},"action_space":["MOVE_FORWARD","MOVE_BACKWARD","MOVE_LEFT","MOVE_RIGHT","TURN_LEFT","TURN_RIGHT"],"observation_space":{"objects":["Wall","Floor","Exit","Beacon"],"colors":["NONE","RED","GREEN","BLUE","YELLOW"]},"reset_function":{"name":"memory","shape":[5,5],"colors":["RED","GREEN","BLUE","YELLOW"]},"transition_functions":[{"name":"move_agent"},{"name":"turn_agent"}],"reward_functions":[{"name":"reach_exit_memory","reward_good":5.0,"reward_bad":-5.0},{"name":"living_reward","reward":-0.05}],"observation_function":{"name":"partially_occluded","area":[[-6,0],[-3,3]]},"terminating_function":{"name":"reach_exit"}}',
    'gv_memory.9x9.yaml': '{"state_space":{"objects":["Wall","Floor","Exit","Beacon"],"colors":["NONE","RED","GREEN","BLUE","YELLOW"]},"action_space":["MOVE_FORWARD","MOVE_BACKWARD","MOVE_LEFT","MOVE_RIGHT","TURN_LEFT","TURN_RIGHT"],"observation_space":{"objects":["Wall","Floor","Exit","Beacon"],"colors":["NONE","RED","GREEN","BLUE","YELLOW"]},"reset_function":{"name":"memory","shape":[9,9],"colors":["RED","GREEN","BLUE","YELLOW"]},"transition_functions":[{"name":"move_agent"},{"name":"turn_agent"}],"reward_functions":[{"name":"reach_exit_memory","reward_good":5.0,"reward_bad":-5.0},{"name":"living_reward","reward":-0.05}],"observation_function":{"name":"partially_occluded","area":[[-6,0],[-3,3]]},"terminating_function":{"name":"reach_exit"}}',
    'gv_memory_four_rooms.7x7.yaml': '{"state_space":{"objects":["Wall","Floor","Exit","Beacon"],"colors":["NONE","RED","GREEN","BLUE","YELLOW"]},"action_space":["MOVE_FORWARD","MOVE_BACKWARD","MOVE_LEFT","MOVE_RIGHT","TURN_LEFT","TURN_RIGHT"],"observation_space":{"objects":["Wall","Floor","Exit","Beacon"],"colors":["NONE","RED","GREEN","BLUE","YELLOW"]},"reset_function":{"name":"memory_rooms","shape":[7,7],"layout":[2,2],"colors":["RED","GREEN","BLUE","YELLOW"],"num_beacons":1,"num_exits":2},"transition_functions":[{"name":"move_agent"},{"name":"turn_agent"}],"reward_functions":[{"name":"reach_exit_memory","reward_good":5.0,"reward_bad":-5.0},{"name":"living_reward","reward":-0.05}],"observation_function":{"name":"partially_occluded","area":[[-6,0],[-3,3]]},"terminating_function":{"name":"reach_exit"}}',
    'gv_memory_four_rooms.9x9.yaml': '{"state_space":{"objects":["Wall","Floor","Exit","Beacon"],"colors":["NONE","RED","GREEN","BLUE","YELLOW"]},"action_space":["MOVE_FORWARD","MOVE_BACKWARD","MOVE_LEFT","MOVE_RIGHT","TURN_LEFT","TURN_RIGHT"],"observation_space":{"objects":["Wall","Floor","Exit","Beacon"],"colors":["NONE","RED","GREEN","BLUE","YELLOW"]},"reset_function":{"name":"memory_rooms","shape":[9,9],"layout":[2,2],"colors":["RED","GREEN","BLUE","YELLOW"],"num_beacons":1,"num_exits":2},"transition_functions":[{"name":"move_agent"},{"name":"turn_agent"}],"reward_functions":[{"name":"reach_exit_memory","reward_good":5.0,"reward_bad":-5.0},{"name":"living_reward","reward":-0.05}],"observation_function":{"name":"partially_occluded","area":[[-6,0],[-3,3]]},"terminating_function":{"name":"reach_exit"}}',
    'gv_memory_nine_rooms.10x10.yaml': '{"state_space":{"objects":["Wall","Floor","Exit","Beacon"],"colors":["NONE","RED","GREEN","BLUE","YELLOW"]},"action_space":["MOVE_FORWARD","MOVE_BACKWARD","MOVE_LEFT","MOVE_RIGHT","TURN_LEFT","TURN_RIGHT"],"observation_space":{"objects":["Wall","Floor","Exit","Beacon"],"colors":["NONE","RED","GREEN","BLUE","YELLOW"]},"reset_function":{"name":"memory_rooms","shape":[10,10],"layout":[3,3],"colors":["RED","GREEN","BLUE","YELLOW"],"num_beacons":1,"num_exits":2},"transition_functions":[{"name":"move_agent"},{"name":"turn_agent"}],"reward_functions":[{"name":"reach_exit_memory","reward_good":5.0,"reward_bad":-5.0},{"name":"living_reward","reward":-0.05}],"observation_function":{"name":"partially_occluded","area":[[-6,0],[-3,3]]},"terminating_function":{"name":"reach_exit"}}',
    'gv_memory_nine_rooms.13x13.yaml': '{"state_space":{"objects":["Wall","Floor","Exit","Beacon"],"colors":["NONE","RED","GREEN","BLUE","YELLOW"]},"action_space":["MOVE_FORWARD","MOVE_BACKWARD","MOVE_LEFT","MOVE_RIGHT","TURN_LEFT","TURN_RIGHT"],"observation_space":{"objects":["Wall","Floor","Exit","Beacon"],"colors":["NONE","RED","GREEN","BLUE","YELLOW"]},"reset_function":{"name":"memory_rooms","shape":[13,13],"layout":[3,3],"colors":["RED","GREEN","BLUE","YELLOW"],"num_beacons":1,"num_exits":2},"transition_functions":[{"name":"move_agent"},{"name":"turn_agent"}],"reward_functions":[{"name":"reach_exit_memory","reward_good":5.0,"reward_bad":-5.0},{"name":"living_reward","reward":-0.05}],"observation_function":{"name":"partially_occluded","area":[[-6,0],[-3,3]]},"terminating_function":{"name":"reach_exit"}}',
    'gv_nine_rooms.10x10.yaml': '{"state_space":{"objects":["Wall","Floor","Exit"],"colors":["NONE"]},"action_space":["MOVE_FORWARD","MOVE_BACKWARD","MOVE_LEFT","MOVE_RIGHT","TURN_LEFT","TURN_RIGHT"],"observation_space":{"objects":["Wall","Floor","Exit"],"colors":["NONE"]},"reset_function":{"name":"rooms","shape":[10,10],"layout":[3,3]},"transition_functions":[{"name":"move_agent"},{"name":"turn_agent"}],"reward_functions":[{"name":"reach_exit","reward_on":5.0,"reward_off":0.0},{"name":"getting_closer","distance_function":"manhattan","object_type":"Exit","reward_closer":0.2,"reward_further":-0.2},{"name":"living_reward","reward":-0.05}],"observation_function":{"name":"partially_occluded","area":[[-6,0],[-3,3]]},"terminating_function":{"name":"reach_exit"}}',
    'gv_nine_rooms.13x13.yaml': '{"state_space":{"objects":["Wall","Floor","Exit"],"colors":["NONE"]},"action_space":["MOVE_FORWARD","MOVE_BACKWARD","MOVE_LEFT","MOVE_RIGHT","TURN_LEFT","TURN_RIGHT"],"observation_space":{"objects":["Wall","Floor","Exit"],"colors":["NONE"]},"reset_function":{"name":"rooms","shape":[13,13],"layout":[3,3]},"transition_functions":[{"name":"move_agent"},{"name":"turn_agent"}],"reward_functions":[{"name":"reach_exit","reward_on":5.0,"reward_off":0.0},{"name":"getting_closer","distance_function":"manhattan","object_type":"Exit","reward_closer":0.2,"reward_further":-0.2},{"name":"living_reward","reward":-0.05}],"observation_function":{"name":"partially_occluded","area":[[-6,0],[-3,3]]},"terminating_function":{"name":"reach_exit"}}',
    'gv_teleport.5x5.yaml': '{"state_space":{"objects":["Wall","Floor","Exit","Telepod"],"colors":["NONE","RED"]},"action_space":["MOVE_FORWARD","MOVE_BACKWARD","MOVE_LEFT","MOVE_RIGHT","TURN_LEFT","TURN_RIGHT"],"observation_space":{"objects":["Wall","Floor","Exit","Telepod"],"colors":["NONE","RED"]},"reset_function":{"name":"teleport","shape":[5,5],"random_agent":true},"transition_functions":[{"name":"move_agent"},{"name":"turn_agent"},{"name":"teleport"}],"reward_functions":[{"name":"reach_exit","reward_on":5.0,"reward_off":0.0},{"name":"getting_closer","distance_function":"manhattan","object_type":"Exit","reward_closer":0.2,"reward_further":-0.2},{"name":"living_reward","reward":-0.05}],"observation_function":{"name":"partially_occluded","area":[[-6,0],[-3,3]]},"terminating_function":{"name":"reach_exit"}}',
    'gv_teleport.7x7.yaml': '{"state_space":{"objects":["Wall","Floor","Exit","Telepod"],"colors":["NONE","RED"]},"action_space":["MOVE_FORWARD","MOVE_BACKWARD","MOVE_LEFT","MOVE_RIGHT","TURN_LEFT","TURN_RIGHT"],"observation_space":{"objects":["Wall","Floor","Exit","Telepod"],"colors":["NONE","RED"]},"reset_function":{"name":"teleport","shape":[7,7],"random_agent":true},"transition_functions":[{"name":"move_agent"},{"name":"turn_agent"},{"name":"teleport"}],"reward_functions":[{"name":"reach_exit","reward_on":5.0,"reward_off":0.0},{"name":"getting_closer","distance_function":"manhattan","object_type":"Exit","reward_closer":0.2,"reward_further":-0.2},{"name":"living_reward","reward":-0.05}],"observation_function":{"name":"partially_occluded","area":[[-6,0],[-3,3]]},"terminating_function":{"name":"reach_exit"}}',
}


def spec_from_config(data, kind):
    """(name, kwargs) spec from a configuration entry (plain data)"""
    data = dict(data)
    name = data.pop('name')
    kw = {}
    for key, value in data.items():
        if key == 'object_type':
            kw[key] = TYPE_BY_NAME[value]
        elif key == 'distance_function':
            kw['_kind'] = value
        elif key in ('reward_functions', 'terminating_functions'):
            kw['_specs'] = [spec_from_config(d, kind) for d in value]
        else:
            kw[key] = value
    return (name, kw)


def shipped_trajectories(seeds, steps):
    pairs = 0
    exits = 0
    for config_name in sorted(SHIPPED_JSON):
        data = json.loads(SHIPPED_JSON[config_name])
        reward_spec = (
            'reduce_sum',
            {'_specs': [spec_from_config(d, 'r') for d in data['reward_functions']]},
        )
        termination_spec = spec_from_config(data['terminating_function'], 't')
        exit_specs = [
            s for s in reward_spec[1]['_specs']
            if s[0] in ('reach_exit', 'reach_exit_memory')
        ]
        check(len(exit_specs) == 1, 'one exit reward per shipped config')
        exit_spec = exit_specs[0]

        env = factory_env_from_data(copy.deepcopy(data))
        actions = list(env.action_space.actions)
        for seed in seeds:
            env.set_seed(seed)
            chooser = random.Random(seed * 1000 + 17)
            state = env.functional_reset()
            for _ in range(steps):
                action = chooser.choice(actions)
                enc = encode_state(state)
                next_state, reward, done = env.functional_step(state, action)
                check(encode_state(state) == enc, 'step modified its input')
                enc_next = encode_state(next_state)

                want_reward = ref_reward(reward_spec, enc, action.name, enc_next)
                want_done = ref_termination(
                    termination_spec, enc, action.name, enc_next
                )
                check(
                    same_value(reward, want_reward),
                    'env reward', config_name, seed, action, reward, want_reward,
                )
                check(
                    same_value(done, want_done),
                    'env done', config_name, seed, action, done, want_done,
                )

                # the exit reward is paid exactly when exit-termination fires
                exit_reward = lib_reward(exit_spec, True)(state, action, next_state)
                exit_done = T.reach_exit(state, action, next_state)
                on_exit = ref_overlap(enc_next, {'Exit'})
                check(bool(exit_done) == on_exit, 'exit termination')
                if exit_spec[0] == 'reach_exit':
                    on, off = exit_spec[1]['reward_on'], exit_spec[1]['reward_off']
                    check(on != off, 'config sanity')
                    check(exit_reward == (on if on_exit else off), 'exit reward')
                else:
                    check((exit_reward != 0.0) == on_exit, 'memory exit reward')
                    check(
                        exit_reward
                        in (
                            0.0,
                            exit_spec[1]['reward_good'],
                            exit_spec[1]['reward_bad'],
                        ),
                        'memory exit reward value',
                    )
                if on_exit:
                    check(bool(done), 'episode must end on the exit', config_name)
                    exits += 1

                # the library components, evaluated one by one on the real
                # transition, also agree with the reference
                for spec in reward_spec[1]['_specs']:
                    check(
                        same_value(
                            lib_reward(spec, False)(state, action, next_state),
                            ref_reward(spec, enc, action.name, enc_next),
                        ),
                        'component on real transition', config_name, spec,
                    )

                pairs += 1
                state = env.functional_reset() if done else next_state
    return pairs, exits


def main():
    budget = {'A': 1500, 'B': 1500, 'C': 1500}
    budget[FOCUS] = 6000

    composition_protocol()
    print('composition protocol ok', CHECKS)

    exhaustive_door_and_pick()
    print('exhaustive doors / pick-n-drop ok', CHECKS)
    exhaustive_bumps_and_overlaps()
    print('exhaustive bumps / overlaps ok', CHECKS)
    exhaustive_distances()
    print('exhaustive distances ok', CHECKS)
    exhaustive_memory()
    print('exhaustive memory ok', CHECKS)

    raised = random_triples(
        101, budget['A'], {'actuate_door', 'pickndrop', 'bump_into_wall'}, None
    )
    raised += random_triples(
        202,
        budget['B'],
        {
            'proportional_to_distance',
            'getting_closer',
            'getting_closer_shortest_path',
        },
        None,
    )
    raised += random_triples(
        303,
        budget['C'],
        {'reach_exit_memory', 'reach_exit', 'bump_moving_obstacle'},
        {'reach_exit', 'bump_moving_obstacle', 'bump_into_wall', 'reduce_any', 'reduce_all'},
    )
    print('random triples ok', CHECKS, '(expected exceptions: %d)' % raised)
    check(raised > 50, 'error paths were not exercised')

    pairs, exits = shipped_trajectories(seeds=(0, 1, 2), steps=120)
    print('shipped configurations ok', CHECKS, 'steps', pairs, 'exits', exits)
    check(exits > 20, 'too few exits reached to be meaningful')

    print('ALL OK: %d checks' % CHECKS)


if __name__ == '__main__':
    main()
