"""Demo for change A (GridWorld wiring: debug checks moved into private helpers).

Run from the worktree root:  /venv/bin/python _seed/A/demo.py

Exits 0 on the pristine tree and with the patch applied.  It checks, against a
reference implementation of the GridWorld wiring embedded below (the pristine
code), that

* seeded environments are reproducible (same seed -> same states, observations,
  rewards, termination flags), with the debug flag on or off, under arbitrary
  interleavings with other live environments, after re-seeding, and across
  interpreter processes with different PYTHONHASHSEED values;
* a seeded environment never reads or perturbs the library-level generator,
  numpy's global generator or python's `random`;
* the wiring performs exactly the same calls, in the same order, on the same
  objects, with the same `rng` (recorded with spies, compared with a
  hard-coded expected log);
* errors are raised in the same situations with the same messages and before
  the same side effects.
"""
import hashlib
import os
import random
import subprocess
import sys
import warnings
from typing import Optional, Tuple

warnings.filterwarnings('ignore')

sys.path.insert(0, os.getcwd())

import numpy as np  # noqa: E402
import numpy.random as rnd  # noqa: E402

import gym_gridverse.rng as gv_rng_module  # noqa: E402
from gym_gridverse.action import Action  # noqa: E402
from gym_gridverse.debugging import gv_debug, reset_gv_debug  # noqa: E402
from gym_gridverse.envs import InnerEnv  # noqa: E402
from gym_gridverse.envs import observation_functions as observation_fs
from gym_gridverse.envs import reset_functions as reset_fs  # noqa: E402
from gym_gridverse.envs import reward_functions as reward_fs  # noqa: E402
from gym_gridverse.envs import terminating_functions as terminating_fs
from gym_gridverse.envs import transition_functions as transition_fs
from gym_gridverse.envs.gridworld import GridWorld  # noqa: E402
from gym_gridverse.envs.transition_functions import (  # noqa: E402
    transition_with_copy,
)
from gym_gridverse.geometry import Area, Orientation, Shape  # noqa: E402
from gym_gridverse.grid_object import (  # noqa: E402
    Beacon,
    Color,
    Door,
    Exit,
    Floor,
    Key,
    MovingObstacle,
    Telepod,
    Wall,
)
from gym_gridverse.observation import Observation  # noqa: E402
from gym_gridverse.rng import make_rng, reset_gv_rng  # noqa: E402
from gym_gridverse.spaces import (  # noqa: E402
    ActionSpace,
    ObservationSpace,
    StateSpace,
)
from gym_gridverse.state import State  # noqa: E402

# --------------------------------------------------------------------------
# reference implementation:  the pristine wiring, verbatim
# --------------------------------------------------------------------------


class ReferenceGridWorld(InnerEnv):
    def __init__(
        self,
        state_space,
        action_space,
        observation_space,
        reset_function,
        transition_function,
        observation_function,
        reward_function,
        termination_function,
    ):
        self._reset_function = reset_function
        self._transition_function = transition_function
        self._observation_function = observation_function
        self._reward_function = reward_function
        self._termination_function = termination_function
        self._rng: Optional[rnd.Generator] = None
        super().__init__(state_space, action_space, observation_space)

    def set_seed(self, seed: Optional[int] = None):
        self._rng = make_rng(seed)

    def functional_reset(self) -> State:
        state = self._reset_function(rng=self._rng)
        if gv_debug() and not self.state_space.contains(state):
            raise ValueError('state does not satisfy state_space')

        return state

    def functional_step(
        self, state: State, action: Action
    ) -> Tuple[State, float, bool]:
        if gv_debug() and not self.state_space.contains(state):
            raise ValueError('state does not satisfy state_space')
        if not self.action_space.contains(action):
            raise ValueError('action {action} does not satisfy action-space')

        next_state = transition_with_copy(
            self._transition_function,
            state,
            action,
            rng=self._rng,
        )

        if gv_debug() and not self.state_space.contains(next_state):
            raise ValueError('next_state does not satisfy state_space')

        reward = self._reward_function(state, action, next_state)
        terminal = self._termination_function(state, action, next_state)

        return (next_state, reward, terminal)

    def functional_observation(self, state: State) -> Observation:
        observation = self._observation_function(state, rng=self._rng)
        if gv_debug() and not self.observation_space.contains(observation):
            raise ValueError('observation does not satisfy observation_space')

        return observation


# --------------------------------------------------------------------------
# configurations (python counterparts of the shipped yaml files + awkward ones)
# --------------------------------------------------------------------------

ALL_ACTIONS = list(Action)
MOVE_TURN = [
    Action.MOVE_FORWARD,
    Action.MOVE_BACKWARD,
    Action.MOVE_LEFT,
    Action.MOVE_RIGHT,
    Action.TURN_LEFT,
    Action.TURN_RIGHT,
]


def _t(*names):
    return transition_fs.factory(
        'chain',
        transition_functions=[transition_fs.factory(name) for name in names],
    )


def _r(*specs):
    return reward_fs.factory(
        'reduce_sum',
        reward_functions=[
            reward_fs.factory(name, **kwargs) for name, kwargs in specs
        ],
    )


def _any(*names):
    return terminating_fs.factory(
        'reduce_any',
        terminating_functions=[terminating_fs.factory(n) for n in names],
    )


_COMMON_REWARDS = [
    ('reach_exit', dict(reward_on=5.0, reward_off=0.0)),
    (
        'getting_closer',
        dict(object_type=Exit, reward_closer=0.2, reward_further=-0.2),
    ),
    ('living_reward', dict(reward=-0.05)),
]

CONFIGS = {
    # name: (objects, colors, actions, reset, transition, reward, observation, terminating)
    'empty_4x4': lambda: (
        [Wall, Floor, Exit],
        [Color.NONE],
        MOVE_TURN,
        reset_fs.factory('empty', shape=Shape(4, 4), random_agent=True),
        _t('move_agent', 'turn_agent'),
        _r(*_COMMON_REWARDS),
        observation_fs.factory(
            'partially_occluded', area=Area((-6, 0), (-3, 3))
        ),
        terminating_fs.factory('reach_exit'),
    ),
    'empty_5x9_random_exit': lambda: (
        [Wall, Floor, Exit],
        [],
        ALL_ACTIONS,
        reset_fs.factory(
            'empty', shape=Shape(5, 9), random_agent=True, random_exit=True
        ),
        _t('move_agent', 'turn_agent'),
        _r(*_COMMON_REWARDS, ('bump_into_wall', dict(reward=-1.0))),
        observation_fs.factory('raytracing', area=Area((-2, 1), (-1, 1))),
        terminating_fs.factory('reach_exit'),
    ),
    'dynamic_obstacles_7x7': lambda: (
        [Wall, Floor, Exit, MovingObstacle],
        [Color.NONE],
        MOVE_TURN,
        reset_fs.factory(
            'dynamic_obstacles',
            shape=Shape(7, 7),
            num_obstacles=2,
            random_agent=False,
        ),
        _t('move_agent', 'turn_agent', 'move_obstacles'),
        _r(
            *_COMMON_REWARDS,
            ('bump_moving_obstacle', dict(reward=-1.0)),
            ('bump_into_wall', dict(reward=-1.0)),
        ),
        observation_fs.factory(
            'partially_occluded', area=Area((-6, 0), (-3, 3))
        ),
        _any('reach_exit', 'bump_moving_obstacle', 'bump_into_wall'),
    ),
    'dynamic_obstacles_6x11_stochastic_obs': lambda: (
        [Wall, Floor, Exit, MovingObstacle],
        [Color.NONE],
        ALL_ACTIONS,
        reset_fs.factory(
            'dynamic_obstacles',
            shape=Shape(6, 11),
            num_obstacles=5,
            random_agent=True,
        ),
        _t('move_obstacles', 'move_agent', 'turn_agent', 'move_obstacles'),
        _r(*_COMMON_REWARDS, ('bump_moving_obstacle', dict(reward=-1.0))),
        observation_fs.factory(
            'stochastic_raytracing', area=Area((-4, 2), (-3, 3))
        ),
        _any('reach_exit'),
    ),
    'keydoor_7x7': lambda: (
        [Wall, Floor, Exit, Door, Key],
        [Color.NONE, Color.YELLOW],
        ALL_ACTIONS,
        reset_fs.factory('keydoor', shape=Shape(7, 7)),
        _t('move_agent', 'turn_agent', 'actuate_door', 'pickndrop'),
        _r(
            *_COMMON_REWARDS,
            (
                'pickndrop',
                dict(object_type=Key, reward_pick=1.0, reward_drop=-1.0),
            ),
            ('actuate_door', dict(reward_open=1.0, reward_close=-1.0)),
        ),
        observation_fs.factory(
            'partially_occluded', area=Area((-6, 0), (-3, 3))
        ),
        terminating_fs.factory('reach_exit'),
    ),
    'four_rooms_9x9': lambda: (
        [Wall, Floor, Exit],
        [Color.NONE],
        MOVE_TURN,
        reset_fs.factory('rooms', shape=Shape(9, 9), layout=(2, 2)),
        _t('move_agent', 'turn_agent'),
        _r(*_COMMON_REWARDS),
        observation_fs.factory('fully_transparent', area=Area((-3, 0), (-1, 1))),
        terminating_fs.factory('reach_exit'),
    ),
    'crossing_7x9': lambda: (
        [Wall, Floor, Exit],
        [Color.NONE],
        MOVE_TURN,
        reset_fs.factory(
            'crossing', shape=Shape(7, 9), num_rivers=2, object_type=Wall
        ),
        _t('move_agent', 'turn_agent'),
        _r(*_COMMON_REWARDS, ('bump_into_wall', dict(reward=-1.0))),
        observation_fs.factory(
            'stochastic_raytracing', area=Area((-6, 0), (-3, 3))
        ),
        _any('reach_exit', 'bump_into_wall'),
    ),
    'teleport_7x7': lambda: (
        [Wall, Floor, Exit, Telepod],
        [Color.NONE, Color.RED, Color.GREEN, Color.BLUE, Color.YELLOW],
        MOVE_TURN,
        reset_fs.factory('teleport', shape=Shape(7, 7)),
        _t('move_agent', 'turn_agent', 'teleport'),
        _r(*_COMMON_REWARDS),
        observation_fs.factory(
            'partially_occluded', area=Area((-6, 0), (-3, 3))
        ),
        terminating_fs.factory('reach_exit'),
    ),
    'memory_5x9': lambda: (
        [Wall, Floor, Exit, Beacon],
        [Color.NONE, Color.RED, Color.GREEN, Color.BLUE],
        MOVE_TURN,
        reset_fs.factory(
            'memory',
            shape=Shape(5, 9),
            colors={Color.RED, Color.GREEN, Color.BLUE},
        ),
        _t('move_agent', 'turn_agent'),
        _r(
            ('reach_exit_memory', dict(reward_good=5.0, reward_bad=-5.0)),
            ('living_reward', dict(reward=-0.05)),
        ),
        observation_fs.factory('raytracing', area=Area((-6, 0), (-3, 3))),
        terminating_fs.factory('reach_exit'),
    ),
    'memory_nine_rooms_10x10': lambda: (
        [Wall, Floor, Exit, Beacon],
        [Color.NONE, Color.RED, Color.GREEN, Color.BLUE],
        MOVE_TURN,
        reset_fs.factory(
            'memory_rooms',
            shape=Shape(10, 10),
            layout=(3, 3),
            colors={Color.RED, Color.GREEN, Color.BLUE},
            num_beacons=3,
            num_exits=3,
        ),
        _t('move_agent', 'turn_agent'),
        _r(
            ('reach_exit_memory', dict(reward_good=5.0, reward_bad=-5.0)),
            ('living_reward', dict(reward=-0.05)),
        ),
        observation_fs.factory(
            'partially_occluded', area=Area((-6, 0), (-3, 3))
        ),
        terminating_fs.factory('reach_exit'),
    ),
}


def make_env(name: str, cls=GridWorld) -> InnerEnv:
    (
        objects,
        colors,
        actions,
        reset_function,
        transition_function,
        reward_function,
        observation_function,
        terminating_function,
    ) = CONFIGS[name]()

    # NOTE: a private generator, so that building touches no global generator
    build_rng = make_rng(0)
    state = reset_function(rng=build_rng)
    observation = observation_function(state, rng=build_rng)

    return cls(
        StateSpace(state.grid.shape, objects, colors),
        ActionSpace(actions),
        ObservationSpace(observation.grid.shape, objects, colors),
        reset_function,
        transition_function,
        observation_function,
        reward_function,
        terminating_function,
    )


# --------------------------------------------------------------------------
# canonical encodings (independent of hash() and of object identity)
# --------------------------------------------------------------------------


def encode_object(obj):
    return (type(obj).__name__, int(obj.state_index), obj.color.name)


def encode_grid_agent(x):
    return (
        (x.grid.shape.height, x.grid.shape.width),
        tuple(
            encode_object(x.grid[position])
            for position in x.grid.area.positions()
        ),
        (x.agent.position.y, x.agent.position.x),
        x.agent.orientation.name,
        encode_object(x.agent.grid_object),
    )


def action_sequence(env: InnerEnv, seed: int, n: int):
    rng = rnd.default_rng(seed)
    actions = env.action_space.actions
    return [actions[i] for i in rng.integers(len(actions), size=n)]


def trace_generator(env: InnerEnv, actions, reseed=None):
    """yields one trace item per env operation (so that it can be interleaved)"""
    env.reset()
    yield ('reset', encode_grid_agent(env.state))
    yield ('obs', encode_grid_agent(env.observation))
    for i, action in enumerate(actions):
        if reseed is not None and i == reseed[0]:
            env.set_seed(reseed[1])
            yield ('reseed', reseed[1])
        reward, done = env.step(action)
        yield ('step', action.name, encode_grid_agent(env.state), reward, done)
        # NOTE: observation requested twice;  second one is memoized
        yield ('obs', encode_grid_agent(env.observation))
        yield ('obs', encode_grid_agent(env.observation))
        if done:
            env.reset()
            yield ('reset', encode_grid_agent(env.state))
            yield ('obs', encode_grid_agent(env.observation))


def trace(env, actions, reseed=None):
    return list(trace_generator(env, actions, reseed))


def global_rng_snapshot():
    gv = gv_rng_module._gv_rng
    return (
        None if gv is None else repr(gv.bit_generator.state),
        repr(np.random.get_state()),
        repr(random.getstate()),
    )


NUM_STEPS = 60
SEEDS = [0, 1, 2**32 - 1, 1234567890123]

# --------------------------------------------------------------------------
# checks
# --------------------------------------------------------------------------


def check_matches_reference_and_reproducible():
    for debug in (True, False):
        reset_gv_debug(debug)
        for name in CONFIGS:
            for seed in SEEDS:
                env_a = make_env(name)
                env_b = make_env(name)
                env_ref = make_env(name, ReferenceGridWorld)
                actions = action_sequence(env_a, seed + 1, NUM_STEPS)
                reseed = (NUM_STEPS // 2, seed + 17)

                for env in (env_a, env_b, env_ref):
                    env.set_seed(seed)
                trace_a = trace(env_a, actions, reseed)
                trace_b = trace(env_b, actions, reseed)
                trace_ref = trace(env_ref, actions, reseed)
                assert trace_a == trace_b, (name, seed, debug)
                assert trace_a == trace_ref, (name, seed, debug)

                # re-seeding the same (used) instance restarts the sequence
                env_a.set_seed(seed)
                assert trace(env_a, actions, reseed) == trace_ref

    # (the scenarios are sensitive to the seed)
    for name in CONFIGS:
        env = make_env(name)
        actions = action_sequence(env, 1, NUM_STEPS)
        digests = set()
        for seed in range(4):
            env.set_seed(seed)
            digests.add(repr(trace(env, actions)))
        assert len(digests) > 1, name

    # debug flag does not influence the trajectories
    for name in CONFIGS:
        traces = []
        for debug in (True, False):
            reset_gv_debug(debug)
            env = make_env(name)
            env.set_seed(7)
            traces.append(trace(env, action_sequence(env, 3, NUM_STEPS)))
        assert traces[0] == traces[1], name
    reset_gv_debug(True)


def check_interleaving_and_isolation():
    reset_gv_debug(True)
    reset_gv_rng(123)
    np.random.seed(5)
    random.seed(5)

    names = list(CONFIGS)
    schedule_rng = rnd.default_rng(99)

    # expected, each environment on its own
    expected = {}
    for i, name in enumerate(names):
        env = make_env(name, ReferenceGridWorld)
        env.set_seed(i % 3)
        expected[name] = trace(env, action_sequence(env, i, NUM_STEPS))

    snapshot = global_rng_snapshot()

    # all environments alive at once, operations randomly interleaved;  some
    # of them share the same seed
    generators = {}
    for i, name in enumerate(names):
        env = make_env(name)
        env.set_seed(i % 3)
        generators[name] = trace_generator(
            env, action_sequence(env, i, NUM_STEPS)
        )
    assert global_rng_snapshot() == snapshot, 'building/seeding drew globally'

    results = {name: [] for name in names}
    alive = list(names)
    while alive:
        name = alive[schedule_rng.integers(len(alive))]
        try:
            results[name].append(next(generators[name]))
        except StopIteration:
            alive.remove(name)
        assert global_rng_snapshot() == snapshot, f'{name} drew globally'

    for name in names:
        assert results[name] == expected[name], name

    # perturbing the global generators in between does not matter either
    for name in names[:4]:
        env = make_env(name)
        env.set_seed(names.index(name) % 3)
        result = []
        for item in trace_generator(
            env, action_sequence(env, names.index(name), NUM_STEPS)
        ):
            result.append(item)
            gv_rng_module.get_gv_rng().random()
            np.random.random()
            random.random()
            hash(item)
        assert result == expected[name], name


def check_unseeded_uses_library_generator():
    """without set_seed, rng=None is forwarded: the library generator is used"""
    reset_gv_debug(True)
    for name in ('dynamic_obstacles_6x11_stochastic_obs', 'crossing_7x9'):
        traces = []
        for cls in (GridWorld, ReferenceGridWorld):
            env = make_env(name, cls)
            assert env._rng is None
            reset_gv_rng(31)
            traces.append(trace(env, action_sequence(env, 0, NUM_STEPS)))
        assert traces[0] == traces[1], name

        # set_seed(None) makes a fresh private generator
        env = make_env(name)
        env.set_seed(None)
        assert isinstance(env._rng, rnd.Generator)
        reset_gv_rng(31)
        snapshot = global_rng_snapshot()
        trace(env, action_sequence(env, 0, 10))
        assert global_rng_snapshot() == snapshot


class Spy:
    """records calls to components and spaces"""

    def __init__(self):
        self.log = []
        self.names = {}

    def name(self, obj):
        if obj is None or isinstance(obj, (Action, str)):
            return obj
        return self.names.get(id(obj), '?')

    def learn(self, obj, name):
        self.names[id(obj)] = name
        return obj

    def component(self, label, function, result_name=None, arg_name=None):
        def wrapper(*args, **kwargs):
            if arg_name is not None and self.name(args[0]) == '?':
                self.learn(args[0], arg_name)
            self.log.append(
                (
                    label,
                    tuple(self.name(arg) for arg in args),
                    tuple(sorted((k, self.name(v)) for k, v in kwargs.items())),
                )
            )
            result = function(*args, **kwargs)
            if result_name is not None:
                self.learn(result, result_name)
            return result

        return wrapper


class SpySpace:
    def __init__(self, spy, label, space):
        self.spy = spy
        self.label = label
        self.space = space

    def contains(self, x):
        self.spy.log.append((self.label, (self.spy.name(x),), ()))
        return self.space.contains(x)

    def __getattr__(self, name):
        return getattr(self.space, name)


def spied_env(cls, name='dynamic_obstacles_7x7'):
    spy = Spy()
    base = make_env(name, cls)

    env = cls(
        SpySpace(spy, 'state_space.contains', base.state_space),
        SpySpace(spy, 'action_space.contains', base.action_space),
        SpySpace(spy, 'observation_space.contains', base.observation_space),
        spy.component('reset', base._reset_function, 'state'),
        # NOTE: the transition function receives a (not yet known) copy
        spy.component('transition', base._transition_function, None, 'copy'),
        spy.component('observation', base._observation_function, 'obs'),
        spy.component('reward', base._reward_function),
        spy.component('termination', base._termination_function),
    )
    return env, spy


def expected_log(debug: bool):
    state_check = lambda x: [('state_space.contains', (x,), ())]  # noqa: E731
    log = []
    # functional_reset
    log += [('reset', (), (('rng', 'rng'),))]
    log += state_check('state') if debug else []
    # functional_observation
    log += [('observation', ('state',), (('rng', 'rng'),))]
    log += [('observation_space.contains', ('obs',), ())] if debug else []
    # functional_step
    log += state_check('state') if debug else []
    log += [('action_space.contains', (Action.TURN_LEFT,), ())]
    log += [('transition', ('copy', Action.TURN_LEFT), (('rng', 'rng'),))]
    log += state_check('copy') if debug else []
    log += [('reward', ('state', Action.TURN_LEFT, 'copy'), ())]
    log += [('termination', ('state', Action.TURN_LEFT, 'copy'), ())]
    return log


def check_call_order():
    for debug in (True, False):
        reset_gv_debug(debug)
        for cls in (GridWorld, ReferenceGridWorld):
            env, spy = spied_env(cls)
            env.set_seed(3)
            spy.learn(env._rng, 'rng')
            rng = env._rng

            state = env.functional_reset()
            observation = env.functional_observation(state)
            next_state, reward, done = env.functional_step(
                state, Action.TURN_LEFT
            )
            assert spy.log == expected_log(debug), (cls, debug, spy.log)
            assert env._rng is rng
            assert spy.name(next_state) == 'copy'
            assert next_state is not state
            assert spy.name(observation) == 'obs'
            assert isinstance(reward, float) and isinstance(done, bool)

            # without seed, `rng=None` is forwarded
            env, spy = spied_env(cls)
            state = env.functional_reset()
            env.functional_observation(state)
            env.functional_step(state, Action.TURN_LEFT)
            assert spy.log == [
                (label, args, tuple((k, None) for k, _ in kwargs))
                for label, args, kwargs in expected_log(debug)
            ]
    reset_gv_debug(True)


def raised(f, *args):
    try:
        f(*args)
    except Exception as error:  # pylint: disable=broad-except
        return (type(error).__name__, str(error))
    return None


def check_errors():
    for cls in (GridWorld, ReferenceGridWorld):
        # --- invalid action:  always checked, before the transition runs
        for debug in (True, False):
            reset_gv_debug(debug)
            env, spy = spied_env(cls, 'empty_4x4')  # no PICK_N_DROP/ACTUATE
            env.set_seed(0)
            state = env.functional_reset()
            rng_state = repr(env._rng.bit_generator.state)
            spy.log.clear()
            assert raised(env.functional_step, state, Action.ACTUATE) == (
                'ValueError',
                'action {action} does not satisfy action-space',
            )
            assert [entry[0] for entry in spy.log] == (
                ['state_space.contains', 'action_space.contains']
                if debug
                else ['action_space.contains']
            )
            assert repr(env._rng.bit_generator.state) == rng_state

        # --- invalid state / next_state / observation:  only with debug
        def bad_state_env():
            env = make_env('dynamic_obstacles_7x7', cls)
            env.set_seed(0)
            # key-door states do not belong to the obstacle state-space
            other = make_env('keydoor_7x7', cls)
            other.set_seed(0)
            return env, other.functional_reset()

        def bad_observation_state(env):
            # a key under the agent's feet is always observed
            reset_gv_debug(False)
            state = env.functional_reset()
            state.grid[state.agent.position] = Key(Color.YELLOW)
            return state

        reset_gv_debug(True)
        env, bad_state = bad_state_env()
        assert raised(env.functional_step, bad_state, Action.TURN_LEFT) == (
            'ValueError',
            'state does not satisfy state_space',
        )
        # (state is checked before the action)
        env_small, _ = spied_env(cls, 'empty_4x4')
        assert raised(env_small.functional_step, bad_state, Action.ACTUATE) == (
            'ValueError',
            'state does not satisfy state_space',
        )
        bad_obs_state = bad_observation_state(env)
        reset_gv_debug(True)
        assert raised(env.functional_observation, bad_obs_state) == (
            'ValueError',
            'observation does not satisfy observation_space',
        )

        def bad_reset(*, rng=None):
            return bad_state

        def bad_transition(state, action, *, rng=None):
            state.grid[1, 1] = Key(Color.YELLOW)

        env._reset_function = bad_reset
        assert raised(env.functional_reset) == (
            'ValueError',
            'state does not satisfy state_space',
        )
        env, _ = bad_state_env()
        state = env.functional_reset()
        env._transition_function = bad_transition
        assert raised(env.functional_step, state, Action.TURN_LEFT) == (
            'ValueError',
            'next_state does not satisfy state_space',
        )
        assert not isinstance(state.grid[1, 1], Key)  # the copy was modified

        reset_gv_debug(False)
        env, bad_state = bad_state_env()
        assert raised(env.functional_step, bad_state, Action.TURN_LEFT) is None
        assert raised(env.functional_observation, bad_state) is None
        assert raised(env.functional_observation, bad_obs_state) is None
        env._reset_function = bad_reset
        assert env.functional_reset() is bad_state
        env, _ = bad_state_env()
        state = env.functional_reset()
        env._transition_function = bad_transition
        next_state, _, _ = env.functional_step(state, Action.TURN_LEFT)
        assert isinstance(next_state.grid[1, 1], Key)

        # --- state not set
        env = make_env('empty_4x4', cls)
        assert raised(lambda: env.state) == (
            'RuntimeError',
            'The state was not set properly;  was the environment reset?',
        )
    reset_gv_debug(True)


def digest() -> str:
    """digest of seeded trajectories of every configuration"""
    h = hashlib.sha256()
    for debug in (True, False):
        reset_gv_debug(debug)
        for name in CONFIGS:
            for cls in (GridWorld, ReferenceGridWorld):
                env = make_env(name, cls)
                env.set_seed(42)
                h.update(repr(trace(env, action_sequence(env, 1, 40))).encode())
    reset_gv_debug(True)
    return h.hexdigest()


def check_across_processes():
    digests = {digest()}
    for hashseed in ('0', '1', '4242', 'random'):
        env = dict(os.environ, PYTHONHASHSEED=hashseed)
        output = subprocess.run(
            [sys.executable, os.path.abspath(__file__), '--digest'],
            env=env,
            cwd=os.getcwd(),
            check=True,
            stdout=subprocess.PIPE,
            stderr=subprocess.DEVNULL,
            universal_newlines=True,
        ).stdout
        digests.add(output.strip().splitlines()[-1])
    assert len(digests) == 1, digests


def main():
    if '--digest' in sys.argv:
        print(digest())
        return

    assert all(isinstance(o, Orientation) for o in Orientation)
    check_matches_reference_and_reproducible()
    check_interleaving_and_isolation()
    check_unseeded_uses_library_generator()
    check_call_order()
    check_errors()
    check_across_processes()
    print('OK')


if __name__ == '__main__':
    main()
