"""Demo for change A (move_obstacles / teleport: explicit emptiness guard
instead of `except ValueError` around the random choice).

Run from the worktree root:  /venv/bin/python _seed/A/demo.py

Exits 0 on the pristine tree and with the patch applied.  It checks

1. `move_obstacles` and `teleport` against a reference implementation embedded
   below (the pristine try/except spelling): same resulting state AND same
   random-generator state afterwards, on hand-built awkward grids (enclosed
   obstacles, obstacles in corners / on borders, non-square grids, telepods
   without a twin, with several twins, of colour NONE, ...), with an explicit
   generator and with the library-level generator (rng=None);
2. the C03 property through `GridWorld.functional_step` /
   `functional_observation` on the same scenarios: inputs are not modified,
   outputs share no mutable component with inputs, answers are repeatable
   after arbitrary intervening calls on other environments and re-seeding,
   copies are equal and hash equally.
"""
import itertools as itt
import os
import sys
from functools import partial

sys.path.insert(0, os.getcwd())

import numpy.random as rnd  # noqa: E402

from gym_gridverse.action import Action  # noqa: E402
from gym_gridverse.agent import Agent  # noqa: E402
from gym_gridverse.envs import observation_functions as obs_fs  # noqa: E402
from gym_gridverse.envs import reward_functions as rew_fs  # noqa: E402
from gym_gridverse.envs import terminating_functions as ter_fs  # noqa: E402
from gym_gridverse.envs import transition_functions as tra_fs  # noqa: E402
from gym_gridverse.envs.gridworld import GridWorld  # noqa: E402
from gym_gridverse.geometry import (  # noqa: E402
    Orientation,
    Position,
    Shape,
    get_manhattan_boundary,
)
from gym_gridverse.grid import Grid  # noqa: E402
from gym_gridverse.grid_object import (  # noqa: E402
    Box,
    Color,
    Door,
    Exit,
    Floor,
    GridObject,
    Key,
    MovingObstacle,
    NoneGridObject,
    Telepod,
    Wall,
)
from gym_gridverse.rng import get_gv_rng, reset_gv_rng  # noqa: E402
from gym_gridverse.spaces import (  # noqa: E402
    ActionSpace,
    ObservationSpace,
    StateSpace,
)
from gym_gridverse.state import State  # noqa: E402
from gym_gridverse.utils.fast_copy import fast_copy  # noqa: E402

CHECKS = 0


def check(condition, message):
    global CHECKS
    CHECKS += 1
    if not condition:
        print(f'FAIL: {message}')
        sys.exit(1)


# --------------------------------------------------------------------------
# reference implementations (the pristine spelling)
# --------------------------------------------------------------------------


def ref_move_obstacles(state, action, *, rng):
    positions = [
        position
        for position in state.grid.area.positions()
        if isinstance(state.grid[position], MovingObstacle)
    ]

    for position in positions:
        next_positions = [
            next_position
            for next_position in get_manhattan_boundary(position, distance=1)
            if state.grid.area.contains(next_position)
            and isinstance(state.grid[next_position], Floor)
        ]

        try:
            i = rng.choice(len(next_positions))
        except ValueError:
            pass
        else:
            next_position = next_positions[i]
            state.grid.swap(position, next_position)


def ref_teleport(state, action, *, rng):
    telepod = state.grid[state.agent.position]

    if isinstance(telepod, Telepod):
        positions = [
            position
            for position in state.grid.area.positions()
            if position != state.agent.position
            and isinstance(state.grid[position], Telepod)
            and state.grid[position].color == telepod.color
        ]
        try:
            i = rng.choice(len(positions))
        except ValueError:
            pass
        else:
            state.agent.position = positions[i]


# --------------------------------------------------------------------------
# structural description of states / observations (independent of __eq__)
# --------------------------------------------------------------------------


def describe_object(obj):
    description = [type(obj).__name__, obj.state_index, obj.color.name]
    if isinstance(obj, Box):
        description.append(describe_object(obj.content))
    if isinstance(obj, Door):
        description.append(obj.state.name)
    return tuple(description)


def describe(state):
    """works for states and observations"""
    return (
        (state.grid.shape.height, state.grid.shape.width),
        tuple(
            tuple(describe_object(obj) for obj in row)
            for row in state.grid.objects
        ),
        (state.agent.position.y, state.agent.position.x),
        state.agent.orientation.name,
        describe_object(state.agent.grid_object),
    )


def object_ids(obj):
    ids = {id(obj)}
    if isinstance(obj, Box):
        ids |= object_ids(obj.content)
    return ids


def mutable_ids(state):
    ids = {
        id(state.grid),
        id(state.grid.objects),
        id(state.agent),
        id(state.agent.transform),
    }
    ids |= object_ids(state.agent.grid_object)
    for row in state.grid.objects:
        ids.add(id(row))
        for obj in row:
            ids |= object_ids(obj)
    return ids


def scramble(state):
    """modifies every mutable component of a state, in place"""
    state.agent.position = Position(0, 0)
    state.agent.orientation = state.agent.orientation * Orientation.B
    held = state.agent.grid_object
    if isinstance(held, Box):
        held.content = Wall()
    if hasattr(held, '__dict__') and 'color' in vars(held):
        held.color = Color.YELLOW
    state.agent.grid_object = Key(Color.BLUE)
    for row in state.grid.objects:
        for obj in row:
            if isinstance(obj, Door):
                obj.state = Door.Status.OPEN
                obj.color = Color.YELLOW
            elif isinstance(obj, Box):
                if isinstance(obj.content, Box):
                    obj.content.content = Wall()
                obj.content = Wall()
            elif 'color' in vars(obj):
                obj.color = Color.YELLOW
    for position in list(state.grid.area.positions()):
        state.grid[position] = Wall()
    state.grid.objects[0].reverse()


# --------------------------------------------------------------------------
# scenarios
# --------------------------------------------------------------------------

CHARS = {
    '#': Wall,
    '.': Floor,
    'E': Exit,
    'O': MovingObstacle,
    'r': lambda: Telepod(Color.RED),
    'g': lambda: Telepod(Color.GREEN),
    'n': lambda: Telepod(Color.NONE),
    'k': lambda: Key(Color.RED),
    'K': lambda: Key(Color.NONE),
    'D': lambda: Door(Door.Status.LOCKED, Color.RED),
    'd': lambda: Door(Door.Status.CLOSED, Color.GREEN),
    'o': lambda: Door(Door.Status.OPEN, Color.NONE),
    'B': lambda: Box(Box(Key(Color.RED))),
    'b': lambda: Box(Floor()),
    'M': lambda: Box(MovingObstacle()),
}


def make_state(rows, agent_yx, orientation, held=None):
    objects = [[CHARS[c]() for c in row] for row in rows]
    return State(Grid(objects), Agent(Position(*agent_yx), orientation, held))


LAYOUTS = {
    # obstacles: free, in all four corners, on borders, enclosed by walls /
    # other obstacles / doors / boxes, adjacent to each other; non-square
    'obstacles_wide': (
        [
            'O...#O#..O',
            '.O..###...',
            '..OO.....E',
            'O...dOo..O',
        ],
        [(1, 0), (2, 4), (0, 2), (3, 8)],
    ),
    'obstacles_tall': (
        [
            'O.O',
            '.#.',
            'OBO',
            '#O#',
            '.#.',
            'OMO',
            'EkO',
        ],
        [(0, 1), (4, 0), (4, 2), (1, 0)],
    ),
    # a single row and a single column (every neighbour check hits a border)
    'obstacles_row': (['O.O#O.EO'], [(0, 1), (0, 5)]),
    'obstacles_column': (
        ['O', '.', 'O', 'O', '#', 'O', 'E', '.'],
        [(1, 0), (7, 0)],
    ),
    # every cell an obstacle except the agent's: nobody can move
    'obstacles_full': (['OOO', 'O.O', 'OOO'], [(1, 1)]),
    'no_obstacles': (['....', '.#E.', '....'], [(0, 0), (2, 3)]),
    # telepods: agent on a telepod with no twin, one twin, several twins,
    # twins of another colour only, colour NONE; in corners; with obstacles
    'telepods_wide': (
        [
            'r..g...n',
            '.#O..#..',
            'n..r.E.r',
        ],
        [(0, 0), (2, 3), (2, 7), (0, 3), (0, 7), (2, 0), (1, 0), (2, 5)],
    ),
    'telepods_lonely': (
        [
            'r.g',
            '.O.',
            '#.n',
            'E..',
        ],
        [(0, 0), (0, 2), (2, 2), (3, 1)],
    ),
    'telepods_many': (
        ['rrrr', 'rOrr', 'rrrE'],
        [(0, 0), (1, 2), (2, 2), (2, 3)],
    ),
    # mixed: doors, keys, boxes with nested content next to obstacles
    'mixed': (
        [
            '#######',
            '#.O.D.#',
            '#kB.dE#',
            '#r.O.r#',
            '#######',
        ],
        [(1, 1), (1, 3), (2, 3), (3, 1), (3, 5), (3, 2)],
    ),
}

HELD = [
    None,
    lambda: Key(Color.RED),
    lambda: Key(Color.NONE),
    lambda: Box(Box(Key(Color.GREEN))),
]


def scenarios():
    for name, (rows, agent_positions) in LAYOUTS.items():
        for k, agent_yx in enumerate(agent_positions):
            for j, orientation in enumerate(Orientation):
                held = HELD[(k + j) % len(HELD)]
                yield (
                    f'{name}@{agent_yx}/{orientation.name}',
                    partial(
                        make_state,
                        rows,
                        agent_yx,
                        orientation,
                    ),
                    held,
                )


OBJECT_TYPES = [
    Wall,
    Floor,
    Exit,
    MovingObstacle,
    Telepod,
    Key,
    Door,
    Box,
]


def make_env(shape, view_shape, observation_name, transitions):
    state_space = StateSpace(shape, OBJECT_TYPES, list(Color))
    action_space = ActionSpace(list(Action))
    observation_space = ObservationSpace(
        view_shape, OBJECT_TYPES, list(Color)
    )
    transition_function = partial(
        tra_fs.chain, transition_functions=transitions
    )
    observation_function = partial(
        getattr(obs_fs, observation_name), area=observation_space.area
    )
    reward_function = partial(
        rew_fs.reduce_sum,
        reward_functions=[
            rew_fs.living_reward,
            rew_fs.reach_exit,
            rew_fs.bump_moving_obstacle,
            rew_fs.bump_into_wall,
        ],
    )
    termination_function = partial(
        ter_fs.reduce_any,
        terminating_functions=[
            ter_fs.reach_exit,
            ter_fs.bump_moving_obstacle,
        ],
    )
    reset_function = partial(
        make_state, ['....', '....', '....', '....'], (1, 1), Orientation.R
    )
    return GridWorld(
        state_space,
        action_space,
        observation_space,
        lambda *, rng=None: reset_function(),
        transition_function,
        observation_function,
        reward_function,
        termination_function,
    )


FULL_CHAIN = [
    tra_fs.move_agent,
    tra_fs.turn_agent,
    tra_fs.actuate_door,
    tra_fs.actuate_box,
    tra_fs.pickndrop,
    tra_fs.move_obstacles,
    tra_fs.teleport,
]
REF_CHAIN = [
    tra_fs.move_agent,
    tra_fs.turn_agent,
    tra_fs.actuate_door,
    tra_fs.actuate_box,
    tra_fs.pickndrop,
    ref_move_obstacles,
    ref_teleport,
]


# --------------------------------------------------------------------------
# part 1: the two transition functions against the reference
# --------------------------------------------------------------------------


def part_reference():
    for name, make, held in scenarios():
        for seed in range(6):
            for function, reference in [
                (tra_fs.move_obstacles, ref_move_obstacles),
                (tra_fs.teleport, ref_teleport),
            ]:
                for action in (Action.MOVE_FORWARD, Action.ACTUATE):
                    # explicit generator
                    state = make(held() if held else None)
                    expected = make(held() if held else None)
                    rng, rng_ref = rnd.default_rng(seed), rnd.default_rng(seed)
                    result = function(state, action, rng=rng)
                    reference(expected, action, rng=rng_ref)
                    check(result is None, f'{name}: returns None')
                    check(
                        describe(state) == describe(expected),
                        f'{name} seed={seed} {function.__name__}: state',
                    )
                    check(
                        rng.bit_generator.state == rng_ref.bit_generator.state,
                        f'{name} seed={seed} {function.__name__}: rng state',
                    )

                    # library-level generator
                    state = make(held() if held else None)
                    reset_gv_rng(seed)
                    function(state, action)
                    rng_state = get_gv_rng().bit_generator.state
                    check(
                        describe(state) == describe(expected),
                        f'{name} seed={seed} {function.__name__}: gv rng',
                    )
                    check(
                        rng_state == rng_ref_after(reference, make, held, seed),
                        f'{name} seed={seed} {function.__name__}: gv rng state',
                    )

    # several steps in a row, same generator threaded through
    for name, make, held in scenarios():
        state = make(held() if held else None)
        expected = make(held() if held else None)
        rng, rng_ref = rnd.default_rng(11), rnd.default_rng(11)
        for _ in range(8):
            tra_fs.move_obstacles(state, Action.ACTUATE, rng=rng)
            tra_fs.teleport(state, Action.ACTUATE, rng=rng)
            ref_move_obstacles(expected, Action.ACTUATE, rng=rng_ref)
            ref_teleport(expected, Action.ACTUATE, rng=rng_ref)
            check(describe(state) == describe(expected), f'{name}: rollout')
        check(
            rng.bit_generator.state == rng_ref.bit_generator.state,
            f'{name}: rollout rng state',
        )


def rng_ref_after(reference, make, held, seed):
    rng = rnd.default_rng(seed)
    reference(make(held() if held else None), Action.ACTUATE, rng=rng)
    return rng.bit_generator.state


# --------------------------------------------------------------------------
# part 2: the property through the functional interface
# --------------------------------------------------------------------------

VIEWS = [
    ('partially_occluded', Shape(3, 5)),
    ('raytracing', Shape(2, 7)),
    ('fully_transparent', Shape(5, 1)),
    ('stochastic_raytracing', Shape(4, 3)),
]


def disturb(other_envs, k):
    """arbitrary intervening calls on other environments (cache history)"""
    for j, env in enumerate(other_envs):
        env.set_seed(1000 + k + j)
        env.reset()
        for action in list(Action)[(k + j) % 3 :: 2]:
            env.step(action)
            env.observation
    reset_gv_rng(k)
    get_gv_rng().random(k % 5)


def part_property():
    other_envs = [
        make_env(Shape(4, 4), view_shape, observation_name, FULL_CHAIN)
        for observation_name, view_shape in VIEWS
    ]

    for k, (name, make, held) in enumerate(scenarios()):
        state = make(held() if held else None)
        shape = state.grid.shape
        observation_name, view_shape = VIEWS[k % len(VIEWS)]
        env = make_env(shape, view_shape, observation_name, FULL_CHAIN)
        env_ref = make_env(shape, view_shape, observation_name, REF_CHAIN)
        seed = k % 7

        before = describe(state)
        copy = fast_copy(state)
        check(copy == state and hash(copy) == hash(state), f'{name}: copy')
        check(describe(copy) == before, f'{name}: copy description')
        check(
            not (mutable_ids(copy) & mutable_ids(state)), f'{name}: copy alias'
        )

        for action in Action:
            env.set_seed(seed)
            next_state, reward, done = env.functional_step(state, action)
            check(describe(state) == before, f'{name} {action}: input modified')
            check(state == copy and hash(state) == hash(copy), f'{name}: eq')
            check(
                not (mutable_ids(next_state) & mutable_ids(state)),
                f'{name} {action}: next state aliases input',
            )
            after = describe(next_state)

            # same answer as with the reference transition functions
            env_ref.set_seed(seed)
            expected, reward_ref, done_ref = env_ref.functional_step(
                copy, action
            )
            check(describe(expected) == after, f'{name} {action}: reference')
            check(
                (reward, done) == (reward_ref, done_ref),
                f'{name} {action}: reference reward/done',
            )
            check(
                env._rng.bit_generator.state
                == env_ref._rng.bit_generator.state,
                f'{name} {action}: reference rng state',
            )
            check(type(reward) is float and type(done) is bool, 'kinds')

            # observation of input and output: pure and repeatable
            env.set_seed(seed)
            observation = env.functional_observation(state)
            observation_next = env.functional_observation(next_state)
            check(describe(state) == before, f'{name}: observation impure')
            check(describe(next_state) == after, f'{name}: observation impure')
            observed = describe(observation), describe(observation_next)

            # history independence: other calls, other environments, re-seed
            disturb(other_envs, k)
            env.set_seed(seed)
            again, reward_again, done_again = env.functional_step(state, action)
            check(describe(again) == after, f'{name} {action}: repeat')
            check(again == next_state, f'{name} {action}: repeat eq')
            check(hash(again) == hash(next_state), f'{name} {action}: hash')
            check(
                (reward_again, done_again) == (reward, done),
                f'{name} {action}: repeat reward/done',
            )
            env.set_seed(seed)
            check(
                (
                    describe(env.functional_observation(state)),
                    describe(env.functional_observation(next_state)),
                )
                == observed,
                f'{name} {action}: repeat observation',
            )

            # changing the output afterwards cannot affect the input, and
            # vice versa
            scramble(again)
            check(describe(state) == before, f'{name} {action}: leak to input')
            check(describe(next_state) == after, f'{name} {action}: leak')
            scrambled_input = fast_copy(state)
            env.set_seed(seed)
            output, _, _ = env.functional_step(scrambled_input, action)
            scramble(scrambled_input)
            check(describe(output) == after, f'{name} {action}: leak to output')


if __name__ == '__main__':
    part_reference()
    part_property()
    print(f'OK ({CHECKS} checks)')
