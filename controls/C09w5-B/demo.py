"""Demo / regression program for refactoring B (move_obstacles, Grid.swap).

Run as:  cd /tmp/wt5-C09 && /venv/bin/python -W ignore _seed/B/demo.py

Expected results come from an INDEPENDENT reference model written in this file
(plain tuples and dicts).  For the random dynamics the reference is driven by
its own copy of the random generator, and after every call the state of the
library's generator is compared with the reference's:  the number and the
order of the random draws are therefore checked as well as the outcome.
Object identity is checked too (which object sits where after the step), and
the conservation property C09 (multiset of non-floor objects + held item) is
asserted on every step.
"""
import copy
import itertools
import os
import random
import sys
from collections import Counter

sys.path.insert(0, os.getcwd())

import numpy.random as rnd  # noqa: E402

from gym_gridverse import rng as gv_rng  # noqa: E402
from gym_gridverse.action import Action  # noqa: E402
from gym_gridverse.agent import Agent  # noqa: E402
from gym_gridverse.envs import reset_functions as rf  # noqa: E402
from gym_gridverse.envs import transition_functions as tf  # noqa: E402
from gym_gridverse.envs.yaml.factory import factory_env_from_data  # noqa: E402
from gym_gridverse.geometry import Orientation, Position, Shape  # noqa: E402
from gym_gridverse.grid import Grid  # noqa: E402
from gym_gridverse.grid_object import (  # noqa: E402
    Beacon,
    Box,
    Color,
    Door,
    Exit,
    Floor,
    Key,
    MovingObstacle,
    NoneGridObject,
    Telepod,
    Wall,
)
from gym_gridverse.state import State  # noqa: E402


class Rug(Floor):
    """a Floor subclass (obstacles may step on it: isinstance(., Floor))"""


class FastObstacle(MovingObstacle):
    """a MovingObstacle subclass (moves as well)"""


def desc(obj):
    name = type(obj).__name__
    if name == 'NoneGridObject':
        return None
    if name == 'Door':
        return ('Door', obj.state.name, obj.color.name)
    if name == 'Box':
        return ('Box', desc(obj.content))
    return (name, obj.color.name)


FLOOR_NAMES = {'Floor', 'Rug'}
OBSTACLE_NAMES = {'MovingObstacle', 'FastObstacle'}

DELTA = {
    'FORWARD': (-1, 0),
    'RIGHT': (0, 1),
    'BACKWARD': (1, 0),
    'LEFT': (0, -1),
}
TURN_LEFT_OF = {
    'FORWARD': 'LEFT',
    'LEFT': 'BACKWARD',
    'BACKWARD': 'RIGHT',
    'RIGHT': 'FORWARD',
}
TURN_RIGHT_OF = {v: k for k, v in TURN_LEFT_OF.items()}
OPPOSITE_OF = {k: TURN_LEFT_OF[TURN_LEFT_OF[k]] for k in TURN_LEFT_OF}

# neighbours are considered clockwise, starting from the top
NEIGHBOUR_DELTAS = [(-1, 0), (0, 1), (1, 0), (0, -1)]


# --------------------------------------------------------------------------
# reference model; a token is (uid, descriptor)
# --------------------------------------------------------------------------
class Model:
    def __init__(self, height, width, cells, pos, ori, held):
        self.height = height
        self.width = width
        self.cells = cells
        self.pos = pos
        self.ori = ori
        self.held = held

    def inside(self, p):
        return 0 <= p[0] < self.height and 0 <= p[1] < self.width

    def key(self):
        return (
            self.height,
            self.width,
            tuple(sorted(self.cells.items(), key=lambda kv: kv[0])),
            self.pos,
            self.ori,
            self.held,
        )


def blocks(d):
    if d[0] in ('Wall', 'Box'):
        return True
    if d[0] == 'Door':
        return d[1] != 'OPEN'
    return False


def ref_move_agent(m, action, ref_rng):
    table = {
        'MOVE_FORWARD': m.ori,
        'MOVE_LEFT': TURN_LEFT_OF[m.ori],
        'MOVE_RIGHT': TURN_RIGHT_OF[m.ori],
        'MOVE_BACKWARD': OPPOSITE_OF[m.ori],
    }
    if action not in table:
        return
    dy, dx = DELTA[table[action]]
    target = (m.pos[0] + dy, m.pos[1] + dx)
    if m.inside(target) and not blocks(m.cells[target][1]):
        m.pos = target


def ref_turn_agent(m, action, ref_rng):
    if action == 'TURN_LEFT':
        m.ori = TURN_LEFT_OF[m.ori]
    elif action == 'TURN_RIGHT':
        m.ori = TURN_RIGHT_OF[m.ori]


def ref_move_obstacles(m, action, ref_rng):
    """every obstacle, in reading order of the positions *before* the step,
    goes to a uniformly drawn neighbouring floor cell (as the grid is at that
    moment); an obstacle without such a neighbour draws nothing"""
    obstacles = [
        (y, x)
        for y in range(m.height)
        for x in range(m.width)
        if m.cells[y, x][1][0] in OBSTACLE_NAMES
    ]
    for p in obstacles:
        candidates = []
        for dy, dx in NEIGHBOUR_DELTAS:
            q = (p[0] + dy, p[1] + dx)
            if m.inside(q) and m.cells[q][1][0] in FLOOR_NAMES:
                candidates.append(q)
        if len(candidates) == 0:
            continue
        q = candidates[int(ref_rng.choice(len(candidates)))]
        m.cells[p], m.cells[q] = m.cells[q], m.cells[p]


REFS = {
    'move_agent': ref_move_agent,
    'turn_agent': ref_turn_agent,
    'move_obstacles': ref_move_obstacles,
}


def snapshot(state):
    keepalive = []

    def token(obj):
        keepalive.append(obj)
        return (id(obj), desc(obj))

    height, width = state.grid.shape.height, state.grid.shape.width
    cells = {
        (y, x): token(state.grid[y, x])
        for y in range(height)
        for x in range(width)
    }
    model = Model(
        height,
        width,
        cells,
        (state.agent.position.y, state.agent.position.x),
        state.agent.orientation.name,
        token(state.agent.grid_object),
    )
    return model, keepalive


def strip(key):
    """forget identities"""
    h, w, cells, p, o, held = key
    return (h, w, tuple((q, d) for q, (_, d) in cells), p, o, held[1])


def multiset(key):
    _, _, cells, _, _, held = key
    c = Counter()
    for _, (_, d) in cells:
        if d != ('Floor', 'NONE'):
            c[d] += 1
    if held[1] is not None:
        c[held[1]] += 1
    return c


def same_rng_state(a, b):
    return a.bit_generator.state == b.bit_generator.state


# --------------------------------------------------------------------------
# part 1:  Grid.swap
# --------------------------------------------------------------------------
def part1():
    py_rng = random.Random(7)
    factories = [
        Floor,
        Wall,
        MovingObstacle,
        Exit,
        lambda: Key(Color.RED),
        lambda: Door(Door.Status.LOCKED, Color.BLUE),
        lambda: Box(Key(Color.GREEN)),
        lambda: Telepod(Color.RED),
        lambda: Beacon(Color.YELLOW),
    ]
    count = 0
    for height, width in itertools.product(range(1, 5), range(1, 5)):
        positions = list(itertools.product(range(height), range(width)))
        for p, q in itertools.product(positions, positions):
            for form in ('position', 'tuple', 'mixed'):
                objects = [
                    [py_rng.choice(factories)() for _ in range(width)]
                    for _ in range(height)
                ]
                rows = objects  # the grid keeps this very list of lists
                expected = {pos: objects[pos[0]][pos[1]] for pos in positions}
                expected[p], expected[q] = expected[q], expected[p]
                grid = Grid(objects)
                if form == 'position':
                    result = grid.swap(Position(*p), Position(*q))
                elif form == 'tuple':
                    result = grid.swap(p, q)
                else:
                    result = grid.swap(Position(*p), q)
                assert result is None
                assert grid.objects is rows
                for pos in positions:
                    assert grid[pos] is expected[pos], (height, width, p, q, pos)
                    assert grid.objects[pos[0]][pos[1]] is expected[pos]
                assert grid.shape == Shape(height, width)
                count += 1

        # positions beyond the grid:  IndexError, and nothing is modified
        objects = [
            [py_rng.choice(factories)() for _ in range(width)] for _ in range(height)
        ]
        before = [list(row) for row in objects]
        grid = Grid(objects)
        inside = Position(0, 0)
        for outside in (
            Position(height, 0),
            Position(0, width),
            Position(height + 3, width + 3),
        ):
            for pair in ((inside, outside), (outside, inside), (outside, outside)):
                try:
                    grid.swap(*pair)
                except IndexError:
                    pass
                else:
                    raise AssertionError('IndexError expected')
                assert all(
                    a is b
                    for row_a, row_b in zip(grid.objects, before)
                    for a, b in zip(row_a, row_b)
                )
                count += 1

        # python-style negative coordinates address cells from the end
        grid.swap(Position(-1, -1), Position(0, 0))
        assert grid[0, 0] is before[height - 1][width - 1]
        assert grid[height - 1, width - 1] is before[0][0]
        count += 1
    return count


# --------------------------------------------------------------------------
# part 2:  move_obstacles alone
# --------------------------------------------------------------------------
def run_and_check(state, action, function, ref_names, lib_rng, context):
    """runs `function` in place; compares with the reference, identity-wise"""
    model, keepalive = snapshot(state)
    before_key = model.key()
    ref_rng = copy.deepcopy(lib_rng)
    assert same_rng_state(ref_rng, lib_rng)
    for ref_name in ref_names:
        REFS[ref_name](model, action.name, ref_rng)
    expected = model.key()

    result = function(state, action, rng=lib_rng)
    assert result is None, context
    actual = snapshot(state)[0].key()
    assert actual == expected, (context, actual, expected)
    # same number (and kind) of random draws
    assert same_rng_state(ref_rng, lib_rng), context
    # C09
    assert multiset(actual) == multiset(before_key), context
    # scenery never moves:  only floors and obstacles may differ
    for (q, (_, d0)), (_, (_, d1)) in zip(before_key[2], actual[2]):
        if d0 != d1:
            assert {d0[0], d1[0]} <= FLOOR_NAMES | OBSTACLE_NAMES, (context, q)
    return actual != before_key


def grid_from_codes(codes, width):
    table = {
        '.': Floor,
        'o': MovingObstacle,
        '#': Wall,
    }
    cells = [table[c]() for c in codes]
    return Grid([cells[i : i + width] for i in range(0, len(cells), width)])


def part2():
    count = 0
    changed = 0
    move_obstacles_from_factory = tf.factory('move_obstacles')

    # (a) every 3x3 and 2x3 and 1x4 grid over {floor, obstacle, wall}
    for height, width in ((3, 3), (2, 3), (1, 4), (4, 1), (1, 1), (2, 2)):
        for codes in itertools.product('.o#', repeat=height * width):
            if 'o' not in codes and codes.count('.') not in (0, height * width):
                continue  # nothing can happen; keep two such grids per shape
            for seed in (0, 1, 2):
                grid = grid_from_codes(codes, width)
                agent = Agent(Position(0, 0), Orientation.FORWARD)
                state = State(grid, agent)
                lib_rng = rnd.default_rng(seed)
                function = (
                    tf.move_obstacles if seed != 2 else move_obstacles_from_factory
                )
                action = list(Action)[(seed + len(codes)) % len(Action)]
                changed += run_and_check(
                    state,
                    action,
                    function,
                    ['move_obstacles'],
                    lib_rng,
                    (codes, width, seed),
                )
                count += 1

    # (b) bigger random cluttered grids, several steps with one generator
    py_rng = random.Random(2024)
    pool = (
        [Floor] * 10
        + [MovingObstacle] * 5
        + [FastObstacle, Rug, Wall, Wall, Exit]
        + [
            lambda: Key(Color.RED),
            lambda: Door(Door.Status.OPEN, Color.BLUE),
            lambda: Box(MovingObstacle()),
            lambda: Box(Floor()),
            lambda: Telepod(Color.GREEN),
        ]
    )
    for trial in range(400):
        height, width = py_rng.randint(1, 7), py_rng.randint(1, 7)
        objects = [[py_rng.choice(pool)() for _ in range(width)] for _ in range(height)]
        held = py_rng.choice([None, Key(Color.BLUE), MovingObstacle()])
        agent = Agent(
            Position(py_rng.randrange(height), py_rng.randrange(width)),
            py_rng.choice(list(Orientation)),
            held,
        )
        state = State(Grid(objects), agent)
        lib_rng = rnd.default_rng(trial)
        for t in range(25):
            action = py_rng.choice(list(Action))
            changed += run_and_check(
                state,
                action,
                tf.move_obstacles,
                ['move_obstacles'],
                lib_rng,
                (trial, t),
            )
            count += 1

    # (c) rng=None falls back to the library-level generator
    for seed in range(30):
        state = State(
            grid_from_codes('o..#o.o.#..o.o..', 4),
            Agent(Position(1, 1), Orientation.RIGHT),
        )
        model, keepalive = snapshot(state)
        ref_rng = rnd.default_rng(seed)
        gv_rng.reset_gv_rng(seed)
        for t in range(10):
            ref_move_obstacles(model, 'ACTUATE', ref_rng)
            if t % 2:
                tf.move_obstacles(state, Action.ACTUATE)
            else:
                tf.move_obstacles(state, Action.ACTUATE, rng=None)
            assert snapshot(state)[0].key() == model.key(), (seed, t)
            assert same_rng_state(gv_rng.get_gv_rng(), ref_rng), (seed, t)
            count += 1
    assert changed > 1000
    return count, changed


# --------------------------------------------------------------------------
# part 3:  compositions, and histories of the shipped obstacle environments
# --------------------------------------------------------------------------
def obstacles_data(size, num_obstacles):
    return {
        'state_space': {
            'objects': ['Wall', 'Floor', 'Exit', 'MovingObstacle'],
            'colors': ['NONE'],
        },
        'action_space': [
            'MOVE_FORWARD',
            'MOVE_BACKWARD',
            'MOVE_LEFT',
            'MOVE_RIGHT',
            'TURN_LEFT',
            'TURN_RIGHT',
        ],
        'observation_space': {
            'objects': ['Wall', 'Floor', 'Exit', 'MovingObstacle'],
            'colors': ['NONE'],
        },
        'reset_function': {
            'name': 'dynamic_obstacles',
            'shape': [size, size],
            'num_obstacles': num_obstacles,
            'random_agent': False,
        },
        'transition_functions': [
            {'name': 'move_agent'},
            {'name': 'turn_agent'},
            {'name': 'move_obstacles'},
        ],
        'reward_functions': [
            {'name': 'reach_exit', 'reward_on': 5.0, 'reward_off': 0.0},
            {'name': 'bump_moving_obstacle', 'reward': -1.0},
            {'name': 'bump_into_wall', 'reward': -1.0},
            {
                'name': 'getting_closer',
                'distance_function': 'manhattan',
                'object_type': 'Exit',
                'reward_closer': 0.2,
                'reward_further': -0.2,
            },
            {'name': 'living_reward', 'reward': -0.05},
        ],
        'observation_function': {
            'name': 'partially_occluded',
            'area': [[-6, 0], [-3, 3]],
        },
        'terminating_function': {
            'name': 'reduce_any',
            'terminating_functions': [
                {'name': 'reach_exit'},
                {'name': 'bump_moving_obstacle'},
                {'name': 'bump_into_wall'},
            ],
        },
    }


def part3():
    py_rng = random.Random(5)
    steps = 0
    changed = 0
    names = ['move_agent', 'turn_agent', 'move_obstacles']
    chain = tf.factory(
        'chain', transition_functions=[tf.factory(name) for name in names]
    )

    # (a) the components of the shipped environments, with an explicit rng:
    #     exact agreement with the reference, draw by draw
    for size, num_obstacles in ((5, 1), (7, 2), (7, 6), (9, 12)):
        reset = rf.factory(
            'dynamic_obstacles',
            shape=Shape(size, size),
            num_obstacles=num_obstacles,
            random_agent=(num_obstacles > 2),
        )
        for seed in range(10):
            lib_rng = rnd.default_rng(seed)
            state = reset(rng=lib_rng)
            initial = multiset(snapshot(state)[0].key())
            assert initial[('MovingObstacle', 'NONE')] == num_obstacles
            for t in range(120):
                action = py_rng.choice(list(Action))
                changed += run_and_check(
                    state, action, chain, names, lib_rng, (size, seed, t)
                )
                assert multiset(snapshot(state)[0].key()) == initial
                steps += 1

            # the non in-place variant gives the same values
            for t in range(20):
                action = py_rng.choice(list(Action))
                model, _ = snapshot(state)
                before_key = model.key()
                ref_rng = copy.deepcopy(lib_rng)
                for name in names:
                    REFS[name](model, action.name, ref_rng)
                next_state = tf.transition_with_copy(
                    chain, state, action, rng=lib_rng
                )
                assert snapshot(state)[0].key() == before_key
                assert strip(snapshot(next_state)[0].key()) == strip(model.key())
                assert same_rng_state(ref_rng, lib_rng)
                state = next_state
                steps += 1

    # (b) the shipped environments themselves (seeded through the public
    #     API):  same seed -> same history; conservation; one-cell moves
    for size, num_obstacles in ((5, 1), (7, 2)):
        actions = [a for a in Action if a.name.startswith(('MOVE', 'TURN'))]
        for seed in range(10):
            histories = []
            action_sequence = [py_rng.choice(actions) for _ in range(150)]
            for repeat in range(2):
                env = factory_env_from_data(obstacles_data(size, num_obstacles))
                env.set_seed(seed)
                env.reset()
                history = [strip(snapshot(env.state)[0].key())]
                initial = multiset(snapshot(env.state)[0].key())
                for action in action_sequence:
                    before = snapshot(env.state)[0].key()
                    _, done = env.step(action)
                    after = snapshot(env.state)[0].key()
                    assert multiset(after) == initial, (size, seed)
                    moved_from = [
                        q
                        for (q, (_, d0)), (_, (_, d1)) in zip(before[2], after[2])
                        if d0[0] == 'MovingObstacle' and d1[0] == 'Floor'
                    ]
                    moved_to = [
                        q
                        for (q, (_, d0)), (_, (_, d1)) in zip(before[2], after[2])
                        if d0[0] == 'Floor' and d1[0] == 'MovingObstacle'
                    ]
                    differing = [
                        q
                        for (q, (_, d0)), (_, (_, d1)) in zip(before[2], after[2])
                        if d0 != d1
                    ]
                    assert sorted(differing) == sorted(moved_from + moved_to)
                    assert len(moved_from) == len(moved_to) <= num_obstacles
                    # an obstacle moves one cell; k obstacles following each
                    # other look like one obstacle moving up to k cells
                    for q in moved_to:
                        assert any(
                            1 <= abs(q[0] - p[0]) + abs(q[1] - p[1]) <= num_obstacles
                            for p in moved_from
                        )
                    history.append(strip(after))
                    steps += 1
                    if done:
                        env.reset()
                        history.append(strip(snapshot(env.state)[0].key()))
                histories.append(history)
            assert histories[0] == histories[1], (size, seed)
    return steps, changed


def main():
    for o in Orientation:
        p = Position.from_orientation(o)
        assert (p.y, p.x) == DELTA[o.name]
        assert (o * Orientation.LEFT).name == TURN_LEFT_OF[o.name]
        assert (o * Orientation.RIGHT).name == TURN_RIGHT_OF[o.name]

    n1 = part1()
    print(f'part 1: {n1} Grid.swap checks ok')
    n2, changed2 = part2()
    print(f'part 2: {n2} move_obstacles calls ok ({changed2} moved something)')
    n3, changed3 = part3()
    print(f'part 3: {n3} chained / environment steps ok ({changed3} changed the state)')
    print('OK')


if __name__ == '__main__':
    main()
