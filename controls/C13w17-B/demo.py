"""Demo for change B (registry helper splitting required / optional keys;
`reset_functions.factory` built on it).

Run from the worktree root:  /venv/bin/python _seed/B/demo.py

Exits 0 on the pristine tree and with the patch applied.  It checks

1. `reset_functions.factory(name, **kwargs)` against the reference
   implementation embedded below (the pristine code, verbatim): same function,
   same bound keyword arguments in the same order, extra keys dropped, same
   `ValueError` (type, message, cause) for unknown names and missing keys --
   for the eight built-in reset functions and for awkward custom ones
   (`*args`, `**kwargs`, keyword-only, defaults of `None`, custom `module:name`
   names), against hard-coded tables as well;
2. property C13 (well-formed initial states, ValueError for parameters that
   cannot be honoured) for the functions the factory returns, which must also
   equal the states the registered functions return when called directly.
"""
import os
import sys

sys.path.insert(0, os.getcwd())

import inspect  # noqa: E402
import itertools as itt  # noqa: E402
import types  # noqa: E402
import warnings  # noqa: E402

warnings.simplefilter('ignore')

from functools import partial  # noqa: E402


from gym_gridverse.action import Action  # noqa: E402
from gym_gridverse.envs import observation_functions as of  # noqa: E402
from gym_gridverse.envs import reset_functions as rf  # noqa: E402
from gym_gridverse.envs import reward_functions as rw  # noqa: E402
from gym_gridverse.envs import terminating_functions as tm  # noqa: E402
from gym_gridverse.envs import transition_functions as tf  # noqa: E402
from gym_gridverse.envs.gridworld import GridWorld  # noqa: E402
from gym_gridverse.geometry import Orientation, Position, Shape  # noqa: E402
from gym_gridverse.grid_object import (  # noqa: E402
    Beacon,
    Color,
    Door,
    Exit,
    Floor,
    Key,
    MovingObstacle,
    NoneGridObject,
    Telepod,
    Wall,
)
from gym_gridverse.rng import make_rng, reset_gv_rng  # noqa: E402
from gym_gridverse.spaces import (  # noqa: E402
    ActionSpace,
    ObservationSpace,
    StateSpace,
)
from gym_gridverse.state import State  # noqa: E402
from gym_gridverse.utils.custom import import_if_custom  # noqa: E402
from gym_gridverse.utils.functions import (  # noqa: E402
    checkraise_kwargs,
    select_kwargs,
)

registry = rf.reset_function_registry

# --------------------------------------------------------------------------
# reference implementation: the pristine factory, verbatim
# --------------------------------------------------------------------------


def reference_factory(name: str, **kwargs):
    name = import_if_custom(name)

    try:
        function = registry[name]
    except KeyError as error:
        raise ValueError(f'invalid reset function name {name}') from error

    signature = inspect.signature(function)
    required_keys = [
        parameter.name
        for parameter in registry.get_nonprotocol_parameters(signature)
        if parameter.default is inspect.Parameter.empty
    ]
    optional_keys = [
        parameter.name
        for parameter in registry.get_nonprotocol_parameters(signature)
        if parameter.default is not inspect.Parameter.empty
    ]

    checkraise_kwargs(kwargs, required_keys)
    kwargs = select_kwargs(kwargs, required_keys + optional_keys)
    return partial(function, **kwargs)


# --------------------------------------------------------------------------
# property C13
# --------------------------------------------------------------------------


def cells(state):
    return [(p, state.grid[p]) for p in state.grid.area.positions()]


def objects_of(state, object_type):
    return [(p, o) for p, o in cells(state) if type(o) is object_type]


def check_common(state, shape):
    grid = state.grid
    assert isinstance(state, State)
    assert grid.shape == shape, (grid.shape, shape)
    height, width = shape.height, shape.width
    for y, x in itt.product(range(height), range(width)):
        if y in (0, height - 1) or x in (0, width - 1):
            assert type(grid[y, x]) is Wall, (y, x, grid[y, x])
    position = state.agent.position
    assert grid.area.contains(position), position
    assert 0 < position.y < height - 1 and 0 < position.x < width - 1
    assert type(state.agent.grid_object) is NoneGridObject
    assert isinstance(state.agent.orientation, Orientation)
    under = grid[position]
    assert not under.blocks_movement, under
    assert not isinstance(under, (Exit, MovingObstacle, Telepod)), under


def check_inventory(name, kwargs, state):
    shape = kwargs['shape']
    check_common(state, shape)
    exits = objects_of(state, Exit)

    if name in ('empty', 'rooms', 'crossing'):
        assert len(exits) == 1

    if name == 'empty':
        n_border = 2 * shape.height + 2 * shape.width - 4
        assert len(objects_of(state, Wall)) == n_border
        n_inside = (shape.height - 2) * (shape.width - 2)
        assert len(objects_of(state, Floor)) == n_inside - 1
        if not kwargs.get('random_exit', False):
            assert exits[0][0] == Position(shape.height - 2, shape.width - 2)
        if not kwargs.get('random_agent', False):
            assert state.agent.position == Position(1, 1)
            assert state.agent.orientation is Orientation.R

    elif name == 'dynamic_obstacles':
        assert len(exits) == 1
        obstacles = objects_of(state, MovingObstacle)
        assert len(obstacles) == kwargs['num_obstacles']

    elif name == 'keydoor':
        assert len(exits) == 1
        doors = objects_of(state, Door)
        keys = objects_of(state, Key)
        assert len(doors) == 1 and len(keys) == 1
        (door_position, door), (key_position, key) = doors[0], keys[0]
        assert door.is_locked and door.color is key.color
        column = [state.grid[y, door_position.x] for y in range(shape.height)]
        assert all(type(o) is Wall or o is door for o in column)
        assert key_position.x < door_position.x
        assert state.agent.position.x < door_position.x
        assert exits[0][0].x > door_position.x

    elif name == 'teleport':
        assert len(exits) == 1
        telepods = objects_of(state, Telepod)
        assert len(telepods) == 2
        assert telepods[0][1].color is telepods[1][1].color

    elif name in ('memory', 'memory_rooms'):
        beacons = objects_of(state, Beacon)
        n_exits = kwargs.get('num_exits', 2)
        n_beacons = kwargs.get('num_beacons', 2)
        assert len(exits) == n_exits and len(beacons) == n_beacons
        exit_colors = [o.color for _, o in exits]
        assert len(set(exit_colors)) == n_exits
        assert set(exit_colors) <= set(kwargs['colors'])
        assert Color.NONE not in exit_colors
        beacon_colors = {o.color for _, o in beacons}
        assert len(beacon_colors) == 1
        assert exit_colors.count(beacon_colors.pop()) == 1


ALL_COLORS = [color for color in Color]
ALL_TYPES = [Floor, Wall, Exit, Door, Key, MovingObstacle, Telepod, Beacon]

COLOR_SETS = [
    set(),
    {Color.RED},
    {Color.RED, Color.NONE},
    {Color.RED, Color.BLUE},
    {Color.RED, Color.BLUE, Color.NONE},
    set(Color) - {Color.NONE},
]


def scenarios():
    """(name, kwargs) for all eight reset functions, legal and illegal"""
    shapes = [Shape(h, w) for h in range(1, 9) for w in range(1, 9)]
    shapes += [Shape(4, 13), Shape(13, 4), Shape(9, 11), Shape(11, 7)]
    layouts = [(1, 1), (1, 2), (2, 1), (2, 2), (3, 2), (1, 3)]

    for shape in shapes:
        for random_agent, random_exit in itt.product([False, True], repeat=2):
            yield 'empty', dict(
                shape=shape, random_agent=random_agent, random_exit=random_exit
            )
        yield 'empty', dict(shape=shape)

        for layout in layouts:
            yield 'rooms', dict(shape=shape, layout=layout)

        for num_obstacles in [-1, 0, 1, 3, 20, 200]:
            yield 'dynamic_obstacles', dict(
                shape=shape, num_obstacles=num_obstacles
            )
            yield 'dynamic_obstacles', dict(
                shape=shape, num_obstacles=num_obstacles, random_agent=True
            )

        yield 'keydoor', dict(shape=shape)
        yield 'teleport', dict(shape=shape)

        for num_rivers in [-1, 0, 1, 2, 3, 50]:
            yield 'crossing', dict(
                shape=shape, num_rivers=num_rivers, object_type=Wall
            )

        for colors in COLOR_SETS:
            yield 'memory', dict(shape=shape, colors=colors)

        for layout, colors, (num_beacons, num_exits) in itt.product(
            [(1, 1), (2, 2), (1, 3)],
            [COLOR_SETS[1], COLOR_SETS[3], COLOR_SETS[4], COLOR_SETS[5]],
            [(0, 2), (1, 1), (1, 2), (2, 3), (1, 6), (40, 2)],
        ):
            if (shape.height + shape.width) % 3 == 0 or shape.height > 8:
                yield 'memory_rooms', dict(
                    shape=shape,
                    layout=layout,
                    colors=colors,
                    num_beacons=num_beacons,
                    num_exits=num_exits,
                )




# --------------------------------------------------------------------------
# the factory against the reference and against hard-coded tables
# --------------------------------------------------------------------------

# name -> (required keys, optional keys), in signature order
EXPECTED_KEYS = {
    'empty': (['shape'], ['random_agent', 'random_exit']),
    'rooms': (['shape', 'layout'], []),
    'dynamic_obstacles': (['shape', 'num_obstacles'], ['random_agent']),
    'keydoor': (['shape'], []),
    'crossing': (['shape', 'num_rivers', 'object_type'], []),
    'teleport': (['shape'], []),
    'memory': (['shape', 'colors'], []),
    'memory_rooms': (
        ['shape', 'layout', 'colors', 'num_beacons', 'num_exits'],
        [],
    ),
}


def describe(f, *args, **kwargs):
    """everything observable about a factory call"""
    try:
        function = f(*args, **kwargs)
    except Exception as error:  # noqa: BLE001
        cause = error.__cause__
        return (
            'raise',
            type(error),
            str(error),
            None if cause is None else (type(cause), str(cause)),
        )
    assert type(function) is partial
    return ('ok', function.func, function.args, list(function.keywords.items()))


def same_factory_behaviour(name, kwargs):
    got = describe(rf.factory, name, **kwargs)
    want = describe(reference_factory, name, **kwargs)
    assert got == want, (name, kwargs, got, want)
    if got[0] == 'ok':
        # the bound values are the very objects that were passed in
        for (key, value), (_, expected) in zip(got[3], want[3]):
            assert value is expected is kwargs[key]
    return got


def check_factory_tables():
    assert sorted(registry.keys()) == sorted(EXPECTED_KEYS), registry.keys()

    pool = dict(
        shape=Shape(7, 9),
        layout=(2, 2),
        num_obstacles=3,
        num_rivers=2,
        object_type=Wall,
        colors={Color.RED, Color.GREEN, Color.BLUE},
        num_beacons=2,
        num_exits=3,
        random_agent=True,
        random_exit=None,  # a falsy, non-default value must still be bound
        # never parameters of a built-in reset function: must be dropped
        rng=make_rng(0),
        title='something',
        unknown=[],
    )

    for name, (required, optional) in EXPECTED_KEYS.items():
        function = registry[name]
        assert function is getattr(rf, name)

        # everything given, in pool order and in reversed order
        for items in (list(pool.items()), list(pool.items())[::-1]):
            kwargs = dict(items)
            got = same_factory_behaviour(name, kwargs)
            assert got[:3] == ('ok', function, ())
            expected_items = [
                (key, value)
                for key, value in items
                if key in required + optional
            ]
            assert got[3] == expected_items, (name, got[3])

        # every subset of the legal keys: missing required keys are reported,
        # the first one in signature order
        keys = required + optional
        for size in range(len(keys) + 1):
            for subset in itt.combinations(keys, size):
                kwargs = {key: pool[key] for key in subset}
                kwargs['unknown'] = 1
                got = same_factory_behaviour(name, kwargs)
                missing = [key for key in required if key not in subset]
                if missing:
                    message = f'missing keyword argument `{missing[0]}`'
                    assert got == ('raise', ValueError, message, None), got
                else:
                    assert got[0] == 'ok'
                    assert [key for key, _ in got[3]] == list(subset)

        # no keyword at all
        got = same_factory_behaviour(name, {})
        assert got == (
            'raise',
            ValueError,
            f'missing keyword argument `{required[0]}`',
            None,
        )

        # the helper introduced by the change, when present
        helper = getattr(registry, 'get_nonprotocol_parameter_names', None)
        if helper is not None:
            signature = inspect.signature(function)
            assert helper(signature) == (required, optional)
            assert helper(signature) == (required, optional)  # no state
            names = [
                parameter.name
                for parameter in registry.get_nonprotocol_parameters(signature)
            ]
            assert names == [
                n for n in signature.parameters if n != 'rng'
            ] and sorted(names) == sorted(required + optional)

    # unknown names
    for name in ['', 'Empty', 'empty ', 'reset', 'factory', 'chain']:
        got = same_factory_behaviour(name, dict(shape=Shape(5, 5)))
        assert got[:3] == (
            'raise',
            ValueError,
            f'invalid reset function name {name}',
        )
        assert got[3][0] is KeyError


def check_factory_custom_functions():
    """awkward signatures, registered under throw-away names"""

    def positional_rng(shape, rng=None):
        return rf.empty(shape, rng=rng)

    def with_none_default(shape, flag=None, *, other=inspect.Parameter.empty, rng=None):
        return rf.empty(shape, bool(flag), rng=rng)

    def keyword_only(*, shape, layout=(1, 1), rng=None):
        return rf.rooms(shape, layout, rng=rng)

    def variadic(shape, *args, option=3, rng=None, **extra):
        return rf.empty(shape, rng=rng)

    def only_rng(*, rng=None):
        return rf.empty(Shape(4, 4), rng=rng)

    def rng_lookalike(shape, rng_=0, *, rng=None):
        return rf.empty(shape, rng=rng)

    customs = {
        'demo_positional_rng': (positional_rng, ['shape'], []),
        # NOTE: a default which *is* `Parameter.empty` counts as no default
        'demo_with_none_default': (
            with_none_default,
            ['shape', 'other'],
            ['flag'],
        ),
        'demo_keyword_only': (keyword_only, ['shape'], ['layout']),
        'demo_variadic': (variadic, ['shape', 'args', 'extra'], ['option']),
        'demo_only_rng': (only_rng, [], []),
        'demo_rng_lookalike': (rng_lookalike, ['shape'], ['rng_']),
    }

    module = types.ModuleType('demo_custom_reset_module')
    sys.modules[module.__name__] = module

    pool = dict(
        shape=Shape(5, 6),
        flag=None,
        other=0,
        layout=(1, 2),
        args=(),
        extra={},
        option=False,
        rng_=1,
        rng=make_rng(1),
        junk=object(),
    )

    try:
        for name, (function, _, _) in customs.items():
            assert registry.register(function, name=name) is function
            assert registry[name] is function

        for name, (function, required, optional) in customs.items():
            keys = required + optional
            for prefix in ('', module.__name__ + ':'):
                for size in range(len(keys) + 1):
                    for subset in itt.combinations(keys, size):
                        kwargs = {key: pool[key] for key in subset}
                        kwargs['junk'] = pool['junk']
                        kwargs['rng'] = pool['rng']
                        got = same_factory_behaviour(prefix + name, kwargs)
                        missing = [k for k in required if k not in subset]
                        if missing:
                            assert got[:3] == (
                                'raise',
                                ValueError,
                                f'missing keyword argument `{missing[0]}`',
                            )
                        else:
                            assert got[:3] == ('ok', function, ())
                            assert [k for k, _ in got[3]] == list(subset)

            helper = getattr(registry, 'get_nonprotocol_parameter_names', None)
            if helper is not None:
                signature = inspect.signature(function)
                assert helper(signature) == (required, optional), name

        # custom module which cannot be imported: same failure, before lookup
        got = same_factory_behaviour('demo_no_such_module_:empty', {})
        assert got[0] == 'raise' and issubclass(got[1], ImportError)

        # factory-made custom functions are usable reset functions
        for name in ('demo_positional_rng', 'demo_only_rng'):
            kwargs = dict(shape=Shape(5, 6))
            f = rf.factory(name, **kwargs)
            g = reference_factory(name, **kwargs)
            assert f(rng=make_rng(3)) == g(rng=make_rng(3))
    finally:
        for name in customs:
            registry.pop(name, None)
        del sys.modules[module.__name__]

    assert sorted(registry.keys()) == sorted(EXPECTED_KEYS)


# --------------------------------------------------------------------------
# property C13 for what the factory returns
# --------------------------------------------------------------------------


def rng_state(rng):
    return rng.bit_generator.state


def make_env(reset_function, shape):
    observation_space = ObservationSpace(Shape(5, 7), ALL_TYPES, ALL_COLORS)
    return GridWorld(
        StateSpace(shape, ALL_TYPES, ALL_COLORS),
        ActionSpace(list(Action)),
        observation_space,
        reset_function,
        partial(tf.chain, transition_functions=[tf.move_agent, tf.turn_agent]),
        partial(of.partially_occluded, area=observation_space.area),
        partial(rw.reach_exit, reward_on=5.0, reward_off=-1.0),
        tm.reach_exit,
    )


def check_property_through_factory():
    counts = {}
    extras = dict(rng=make_rng(99), unknown='dropped', title='dropped too')

    for index, (name, kwargs) in enumerate(scenarios()):
        # extra keys (even `rng`) are dropped, in whatever position they come
        if index % 3 == 0:
            factory_kwargs = {**kwargs, **extras}
        elif index % 3 == 1:
            factory_kwargs = {**extras, **dict(list(kwargs.items())[::-1])}
        else:
            factory_kwargs = dict(kwargs)

        reset_function = rf.factory(name, **factory_kwargs)
        reference_function = reference_factory(name, **factory_kwargs)
        assert reset_function.func is reference_function.func
        assert reset_function.keywords == kwargs
        assert list(reset_function.keywords.items()) == list(
            reference_function.keywords.items()
        )
        direct = getattr(rf, name)

        for seed in (0, 1, 2):
            rng_direct = make_rng(seed)
            try:
                expected = direct(**kwargs, rng=rng_direct)
            except ValueError:
                expected = None
            except Exception as error:  # pragma: no cover
                raise AssertionError((name, kwargs, seed, error))

            rng = make_rng(seed)
            key = (name, 'ok' if expected is not None else 'ValueError')
            counts[key] = counts.get(key, 0) + 1

            if expected is None:
                for f in (reset_function, reference_function):
                    try:
                        f(rng=make_rng(seed))
                    except ValueError:
                        pass
                    else:
                        raise AssertionError((name, kwargs, seed))
                continue

            state = reset_function(rng=rng)
            check_inventory(name, kwargs, state)
            assert state == expected, (name, kwargs, seed)
            assert state == reference_function(rng=make_rng(seed))
            assert rng_state(rng) == rng_state(rng_direct)

            # repeated calls of the same partial: fresh, well-formed states,
            # bound arguments not consumed or mutated
            again = reset_function(rng=rng)
            check_inventory(name, kwargs, again)
            assert again == direct(**kwargs, rng=rng_direct)
            assert again is not state
            assert reset_function.keywords == kwargs

            if seed == 0:
                # no rng: the library generator
                reset_gv_rng(11)
                first = reset_function()
                reset_gv_rng(11)
                assert first == direct(**kwargs)
                check_inventory(name, kwargs, first)

                # as a component of an environment
                env = make_env(reset_function, kwargs['shape'])
                env.set_seed(seed)
                env.reset()
                assert env.state == expected
                check_inventory(name, kwargs, env.state)

    for name in EXPECTED_KEYS:
        assert counts.get((name, 'ok'), 0) > 20, (name, counts)
        assert counts.get((name, 'ValueError'), 0) > 0, (name, counts)
    return counts


def main():
    check_factory_tables()
    check_factory_custom_functions()
    counts = check_property_through_factory()
    print('ok', sorted(counts.items()))


if __name__ == '__main__':
    main()
