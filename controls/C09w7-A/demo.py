"""Checks `move_obstacles` against an independent re-implementation.

Run as `cd /tmp/wt7-C09 && /venv/bin/python -W ignore _seed/A/demo.py`.

For many grids (square, non-square, single row / column / cell), object
mixes, actions and seeds the library function is compared with a reference
written on plain lists of lists:

* the resulting grid contains *the very same objects* (identity) at the same
  cells as the reference predicts,
* the generator ends in the same state (same number and order of draws),
* `Grid.swap` is called with the same `Position` pairs in the same order,
* every obstacle is moved at most once and only onto a cell which was Floor,
* the multiset of objects (by identity) is conserved, scenery never moves, the
  agent (pose and held item) is untouched,
* the module-level generator is used when `rng` is omitted,
* ragged `objects` (rows longer than the declared width) behave as before,
* complete histories of the shipped dynamic-obstacles environments (and of a
  non-square variant) match a replay by the reference.
"""
import os
import sys

sys.path.insert(0, os.getcwd())

import itertools as itt  # noqa: E402

import numpy as np  # noqa: E402

from gym_gridverse.action import Action  # noqa: E402
from gym_gridverse.agent import Agent  # noqa: E402
from gym_gridverse.envs.transition_functions import (  # noqa: E402
    factory as transition_factory,
    move_obstacles,
    transition_function_registry,
    transition_with_copy,
)
from gym_gridverse.envs.yaml.factory import (  # noqa: E402
    factory_env_from_data,
)
from gym_gridverse.geometry import Orientation, Position  # noqa: E402
from gym_gridverse.grid import Grid  # noqa: E402
from gym_gridverse.grid_object import (  # noqa: E402
    Beacon,
    Box,
    Color,
    Door,
    Exit,
    Floor,
    Key,
    MovingObstacle,
    NoneGridObject,
    Telepod,
    Wall,
)
from gym_gridverse.rng import get_gv_rng, make_rng, reset_gv_rng  # noqa: E402
from gym_gridverse.state import State  # noqa: E402

assert transition_function_registry['move_obstacles'] is move_obstacles

# ---------------------------------------------------------------- reference

# top, right, bottom, left: written down by hand on purpose
NEIGHBOURS = [(-1, 0), (0, 1), (1, 0), (0, -1)]


def ref_move_obstacles(cells, height, width, rng):
    """reference on a list of lists;  returns the list of performed moves"""
    obstacles = [
        (y, x)
        for y in range(height)
        for x in range(width)
        if isinstance(cells[y][x], MovingObstacle)
    ]
    moves = []
    for y, x in obstacles:
        candidates = []
        for dy, dx in NEIGHBOURS:
            ny, nx = y + dy, x + dx
            if 0 <= ny < height and 0 <= nx < width:
                if isinstance(cells[ny][nx], Floor):
                    candidates.append((ny, nx))
        if not candidates:
            continue  # no draw at all
        ny, nx = candidates[rng.choice(len(candidates))]
        cells[y][x], cells[ny][nx] = cells[ny][nx], cells[y][x]
        moves.append(((y, x), (ny, nx)))
    return moves


# ------------------------------------------------------------ grid builders

COLORS = list(Color)


def random_object(gen, p_floor, p_obstacle):
    u = gen.random()
    if u < p_floor:
        return Floor()
    if u < p_floor + p_obstacle:
        return MovingObstacle()
    k = gen.integers(8)
    color = COLORS[gen.integers(len(COLORS))]
    if k == 0:
        return Wall()
    if k == 1:
        return Exit(color)
    if k == 2:
        return Door(list(Door.Status)[gen.integers(3)], color)
    if k == 3:
        return Key(color)
    if k == 4:
        return Box(Key(color) if gen.random() < 0.5 else MovingObstacle())
    if k == 5:
        return Telepod(color)
    if k == 6:
        return Beacon(color)
    return Wall()


def random_cells(gen, height, width, p_floor, p_obstacle):
    return [
        [random_object(gen, p_floor, p_obstacle) for _ in range(width)]
        for _ in range(height)
    ]


def random_agent(gen, height, width):
    held = [None, Key(Color.RED), MovingObstacle(), NoneGridObject()][
        gen.integers(4)
    ]
    return Agent(
        Position(int(gen.integers(height)), int(gen.integers(width))),
        list(Orientation)[gen.integers(4)],
        held,
    )


def rng_state(rng):
    return repr(rng.bit_generator.state)


SHAPES = [
    (1, 1),
    (1, 2),
    (2, 1),
    (1, 7),
    (7, 1),
    (2, 2),
    (2, 5),
    (5, 2),
    (3, 3),
    (4, 7),
    (7, 4),
    (6, 6),
    (9, 5),
]
DENSITIES = [
    (0.0, 1.0),  # only obstacles: nobody can move, no draw
    (1.0, 0.0),  # only floor: nothing to move, no draw
    (0.5, 0.5),
    (0.7, 0.2),
    (0.3, 0.3),
    (0.2, 0.1),
    (0.1, 0.6),
]

# --------------------------------------------------- 1. direct comparison


def check_once(cells, agent, action, seed, *, use_module_rng):
    height, width = len(cells), len(cells[0])
    grid = Grid(cells)
    state = State(grid, agent)

    before = [row[:] for row in cells]
    ref_cells = [row[:] for row in cells]
    ref_rng = make_rng(seed)
    ref_moves = ref_move_obstacles(ref_cells, height, width, ref_rng)

    agent_before = (agent.position, agent.orientation, agent.grid_object)

    # record swaps through the public hook (as the test-suite does)
    calls = []

    def swap_recorder(p, q):
        assert type(p) is Position and type(q) is Position
        assert isinstance(grid[p], MovingObstacle), 'moves a non-obstacle'
        assert isinstance(grid[q], Floor), 'moves onto a non-floor'
        calls.append((p.yx, q.yx))
        Grid.swap(grid, p, q)

    grid.swap = swap_recorder
    try:
        if use_module_rng:
            reset_gv_rng(seed)
            result = move_obstacles(state, action)
            lib_rng = get_gv_rng()
        else:
            lib_rng = make_rng(seed)
            result = move_obstacles(state, action, rng=lib_rng)
    finally:
        del grid.swap

    assert result is None
    assert calls == ref_moves, (calls, ref_moves)
    assert rng_state(lib_rng) == rng_state(ref_rng), 'different random draws'

    # same container objects, same shape, same objects at the same cells
    assert state.grid is grid and grid.objects is cells
    assert len(cells) == height and all(len(row) == width for row in cells)
    for y, x in itt.product(range(height), range(width)):
        assert cells[y][x] is ref_cells[y][x], (y, x)

    # conservation by identity;  scenery never moves
    ids_before = sorted(id(o) for row in before for o in row)
    ids_after = sorted(id(o) for row in cells for o in row)
    assert ids_before == ids_after
    for y, x in itt.product(range(height), range(width)):
        if not isinstance(before[y][x], (MovingObstacle, Floor)):
            assert cells[y][x] is before[y][x]
    moved = [id(before[y][x]) for (y, x), _ in calls]
    assert len(moved) == len(set(moved)), 'an obstacle moved twice'

    # agent untouched
    assert state.agent is agent
    assert agent.position is agent_before[0]
    assert agent.orientation is agent_before[1]
    assert agent.grid_object is agent_before[2]
    return len(calls)


def test_direct():
    gen = np.random.default_rng(20240607)
    n_checks = n_moves = 0
    actions = list(Action)
    for (height, width), (p_floor, p_obstacle) in itt.product(
        SHAPES, DENSITIES
    ):
        for seed in range(12):
            cells = random_cells(gen, height, width, p_floor, p_obstacle)
            agent = random_agent(gen, height, width)
            action = actions[(seed + height + width) % len(actions)]
            n_moves += check_once(
                cells, agent, action, seed, use_module_rng=seed % 4 == 0
            )
            n_checks += 1
    print(f'direct: {n_checks} grids, {n_moves} obstacle moves: ok')


# ------------------------------------------ 2. repeated calls, all actions


def test_repeated_calls():
    """several consecutive calls on the same state with one generator"""
    gen = np.random.default_rng(99)
    n = 0
    for height, width in [(1, 6), (3, 8), (8, 3), (5, 5)]:
        for seed in range(10):
            cells = random_cells(gen, height, width, 0.6, 0.25)
            ref_cells = [row[:] for row in cells]
            state = State(Grid(cells), random_agent(gen, height, width))
            lib_rng, ref_rng = make_rng(seed), make_rng(seed)
            function = transition_factory('move_obstacles')
            for action in list(Action) * 2:
                function(state, action, rng=lib_rng)
                ref_move_obstacles(ref_cells, height, width, ref_rng)
                for y, x in itt.product(range(height), range(width)):
                    assert cells[y][x] is ref_cells[y][x]
                assert rng_state(lib_rng) == rng_state(ref_rng)
                n += 1
    print(f'repeated calls: {n} steps: ok')


# ------------------------------------------------- 3. hand-written corners


def test_corners():
    # boxed-in obstacles never move and never draw
    for cells in [
        [[MovingObstacle()]],
        [[MovingObstacle(), Wall()]],
        [[Wall()], [MovingObstacle()], [Key(Color.RED)]],
        [
            [MovingObstacle(), MovingObstacle()],
            [Exit(), Door(Door.Status.OPEN, Color.RED)],
        ],
    ]:
        before = [row[:] for row in cells]
        rng = make_rng(3)
        untouched = rng_state(rng)
        move_obstacles(State(Grid(cells), Agent(Position(0, 0), Orientation.F)), Action.ACTUATE, rng=rng)
        assert all(a is b for r, s in zip(cells, before) for a, b in zip(r, s))
        assert rng_state(rng) == untouched

    # no wrap-around at the borders (negative indices must never be used):
    # the only Floor is at the opposite end of the row / column
    for cells in [
        [[MovingObstacle(), Wall(), Floor()]],
        [[Floor(), Wall(), MovingObstacle()]],
        [[MovingObstacle()], [Wall()], [Floor()]],
        [[Floor()], [Wall()], [MovingObstacle()]],
        [
            [MovingObstacle(), Wall(), Floor()],
            [Wall(), Wall(), Wall()],
            [Floor(), Wall(), Floor()],
        ],
    ]:
        before = [row[:] for row in cells]
        for seed in range(5):
            move_obstacles(State(Grid(cells), Agent(Position(0, 0), Orientation.F)), Action.MOVE_LEFT, rng=make_rng(seed))
            assert all(
                a is b for r, s in zip(cells, before) for a, b in zip(r, s)
            )

    # documented examples of the test-suite (single possible outcome)
    for objects, expected in [
        ('.OO', 'OO.'),
        ('O.O', '.OO'),
        ('OO.', 'O.O'),
    ]:
        cells = [[MovingObstacle() if c == 'O' else Floor() for c in objects]]
        move_obstacles(State(Grid(cells), Agent(Position(0, 0), Orientation.F)), Action.TURN_LEFT)
        got = ''.join(
            'O' if isinstance(o, MovingObstacle) else '.' for o in cells[0]
        )
        assert got == expected, (objects, got, expected)

    # ragged rows: cells beyond the declared width are ignored, as before
    extra_obstacle, extra_floor = MovingObstacle(), Floor()
    first = MovingObstacle()
    cells = [
        [first, Wall()],
        [Wall(), Wall(), extra_floor],
        [Wall(), Wall(), extra_obstacle, Floor()],
    ]
    rng = make_rng(0)
    untouched = rng_state(rng)
    move_obstacles(State(Grid(cells), Agent(Position(0, 0), Orientation.F)), Action.ACTUATE, rng=rng)
    assert cells[0][0] is first
    assert cells[1][2] is extra_floor and cells[2][2] is extra_obstacle
    assert rng_state(rng) == untouched

    # a short row raises IndexError before anything is moved or drawn
    cells = [[MovingObstacle(), Floor()], [Floor()]]
    before = [row[:] for row in cells]
    rng = make_rng(0)
    untouched = rng_state(rng)
    try:
        move_obstacles(State(Grid(cells), Agent(Position(0, 0), Orientation.F)), Action.ACTUATE, rng=rng)
    except IndexError:
        pass
    else:
        raise AssertionError('IndexError expected')
    assert all(a is b for r, s in zip(cells, before) for a, b in zip(r, s))
    assert rng_state(rng) == untouched
    print('corners: ok')


# --------------------------------------------- 4. transition_with_copy


def test_with_copy():
    """the non-in-place wrapper leaves the input state alone"""
    gen = np.random.default_rng(5)
    for height, width in [(4, 6), (6, 4)]:
        for seed in range(10):
            cells = random_cells(gen, height, width, 0.6, 0.3)
            before = [row[:] for row in cells]
            state = State(Grid(cells), random_agent(gen, height, width))
            next_state = transition_with_copy(
                move_obstacles, state, Action.MOVE_FORWARD, rng=make_rng(seed)
            )
            assert all(
                a is b for r, s in zip(cells, before) for a, b in zip(r, s)
            )
            ref_cells = [row[:] for row in cells]
            ref_move_obstacles(ref_cells, height, width, make_rng(seed))
            for y, x in itt.product(range(height), range(width)):
                assert next_state.grid[y, x] == ref_cells[y][x]
                assert type(next_state.grid[y, x]) is type(ref_cells[y][x])
            assert next_state.agent == state.agent
    print('transition_with_copy: ok')


# ------------------------------------------------ 5. environment histories

ORIENTATIONS = [Orientation.F, Orientation.R, Orientation.B, Orientation.L]
DELTAS = [(-1, 0), (0, 1), (1, 0), (0, -1)]
MOVES = {
    Action.MOVE_FORWARD: 0,
    Action.MOVE_RIGHT: 1,
    Action.MOVE_BACKWARD: 2,
    Action.MOVE_LEFT: 3,
}
TURNS = {Action.TURN_RIGHT: 1, Action.TURN_LEFT: 3}


def ref_step(cells, height, width, pose, action, rng):
    """reference for chain(move_agent, turn_agent, move_obstacles)"""
    (y, x), o = pose
    if action in MOVES:
        dy, dx = DELTAS[(o + MOVES[action]) % 4]
        ny, nx = y + dy, x + dx
        if 0 <= ny < height and 0 <= nx < width:
            if not cells[ny][nx].blocks_movement:
                y, x = ny, nx
    if action in TURNS:
        o = (o + TURNS[action]) % 4
    ref_move_obstacles(cells, height, width, rng)
    return (y, x), o


def env_data(shape, num_obstacles, random_agent):
    objects = ['Wall', 'Floor', 'Exit', 'MovingObstacle']
    return {
        'state_space': {'objects': objects, 'colors': ['NONE']},
        'action_space': [
            'MOVE_FORWARD',
            'MOVE_BACKWARD',
            'MOVE_LEFT',
            'MOVE_RIGHT',
            'TURN_LEFT',
            'TURN_RIGHT',
        ],
        'observation_space': {'objects': objects, 'colors': ['NONE']},
        'reset_function': {
            'name': 'dynamic_obstacles',
            'shape': list(shape),
            'num_obstacles': num_obstacles,
            'random_agent': random_agent,
        },
        'transition_functions': [
            {'name': 'move_agent'},
            {'name': 'turn_agent'},
            {'name': 'move_obstacles'},
        ],
        'reward_functions': [
            {'name': 'reach_exit', 'reward_on': 5.0, 'reward_off': 0.0},
            {'name': 'bump_moving_obstacle', 'reward': -1.0},
            {'name': 'living_reward', 'reward': -0.05},
        ],
        'observation_function': {
            'name': 'partially_occluded',
            'area': [[-6, 0], [-3, 3]],
        },
        'terminating_function': {
            'name': 'reduce_any',
            'terminating_functions': [
                {'name': 'reach_exit'},
                {'name': 'bump_moving_obstacle'},
            ],
        },
    }


def signature(cells):
    return [
        [(type(o).__name__, o.state_index, o.color.name) for o in row]
        for row in cells
    ]


def test_histories():
    from gym_gridverse.envs.reset_functions import dynamic_obstacles
    from gym_gridverse.geometry import Shape

    n_steps = 0
    configs = [
        ((5, 5), 1, False),  # shipped gv_dynamic_obstacles.5x5
        ((7, 7), 3, False),  # shipped gv_dynamic_obstacles.7x7
        ((4, 9), 6, True),
        ((9, 4), 5, True),
        ((4, 4), 2, False),
        ((4, 5), 0, False),
    ]
    for shape, num_obstacles, random_agent_ in configs:
        # two environments in the same process, interleaved
        envs = [
            factory_env_from_data(env_data(shape, num_obstacles, random_agent_))
            for _ in range(2)
        ]
        for seed in range(15):
            gen = np.random.default_rng(1000 + seed)
            refs = []
            for k, env in enumerate(envs):
                env.set_seed(seed + 100 * k)
                env.reset()
                ref_rng = make_rng(seed + 100 * k)
                ref_state = dynamic_obstacles(
                    Shape(*shape), num_obstacles, random_agent_, rng=ref_rng
                )
                assert ref_state == env.state
                refs.append(
                    [
                        ref_state.grid.objects,
                        (
                            ref_state.agent.position.yx,
                            ORIENTATIONS.index(ref_state.agent.orientation),
                        ),
                        ref_rng,
                    ]
                )
            actions = env.action_space.actions
            for _ in range(40):
                for env, ref in zip(envs, refs):
                    action = actions[gen.integers(len(actions))]
                    previous = env.state
                    previous_signature = signature(previous.grid.objects)
                    env.step(action)
                    ref[1] = ref_step(
                        ref[0], shape[0], shape[1], ref[1], action, ref[2]
                    )
                    state = env.state
                    # the previous state is not modified
                    assert signature(previous.grid.objects) == previous_signature
                    assert state.grid.shape.as_tuple == tuple(shape)
                    assert signature(state.grid.objects) == signature(ref[0])
                    assert state.agent.position.yx == ref[1][0]
                    assert state.agent.orientation is ORIENTATIONS[ref[1][1]]
                    assert isinstance(state.agent.grid_object, NoneGridObject)
                    # conservation of the non-floor objects
                    count = sorted(
                        s for row in signature(state.grid.objects) for s in row
                    )
                    previous_count = sorted(
                        s for row in previous_signature for s in row
                    )
                    assert count == previous_count
                    n_steps += 1
    print(f'histories: {n_steps} steps: ok')


if __name__ == '__main__':
    test_direct()
    test_repeated_calls()
    test_corners()
    test_with_copy()
    test_histories()
    print('OK')
