"""C17 demo (change A: function-schema helpers in envs/yaml/schemas.py).

Run from the worktree root:  /venv/bin/python _seed/A/demo.py

Exits 0 on the pristine tree and with the patch applied.  PyYAML is not
available, so the shipped configuration files are read with a tiny loader for
the YAML subset they use (block mappings, block lists of mappings, flow lists
of scalars) and the configuration layer is driven through
`factory_env_from_data` and the other `factory_*` functions.
"""
import copy
import hashlib
import inspect
import json
import os
import re
import sys
import warnings
from functools import partial

warnings.simplefilter('ignore')

ROOT = os.getcwd()
sys.path.insert(0, ROOT)
sys.path.insert(0, os.path.join(ROOT, 'examples'))  # for `coin_env:...`

import numpy as np  # noqa: E402
from schema import Schema, SchemaError  # noqa: E402

from gym_gridverse.action import Action  # noqa: E402
from gym_gridverse.envs import observation_functions as observation_fs  # noqa: E402
from gym_gridverse.envs import reset_functions as reset_fs  # noqa: E402
from gym_gridverse.envs import reward_functions as reward_fs  # noqa: E402
from gym_gridverse.envs import terminating_functions as terminating_fs  # noqa: E402
from gym_gridverse.envs import transition_functions as transition_fs  # noqa: E402
from gym_gridverse.envs import visibility_functions as visibility_fs  # noqa: E402
from gym_gridverse.envs.gridworld import GridWorld  # noqa: E402
from gym_gridverse.envs.yaml import factory as yfactory  # noqa: E402
from gym_gridverse.envs.yaml.schemas import schemas  # noqa: E402
from gym_gridverse.geometry import Area, Position, Shape  # noqa: E402
from gym_gridverse.grid_object import Color, grid_object_registry  # noqa: E402
from gym_gridverse.rng import reset_gv_rng  # noqa: E402
from gym_gridverse.spaces import (  # noqa: E402
    ActionSpace,
    ObservationSpace,
    StateSpace,
)

CHECKS = 0


def check(condition, message):
    global CHECKS
    CHECKS += 1
    if not condition:
        print('FAIL:', message)
        sys.exit(1)


# ---------------------------------------------------------------------------
# a loader for the YAML subset used by the shipped configurations
# ---------------------------------------------------------------------------


def _scalar(text):
    text = text.strip()
    if re.fullmatch(r'[-+]?\d+', text):
        return int(text)
    if re.fullmatch(r'[-+]?(\d+\.\d*|\.\d+)([eE][-+]?\d+)?', text):
        return float(text)
    if text in ('true', 'True'):
        return True
    if text in ('false', 'False'):
        return False
    assert not any(c in text for c in '[]{}#\'"'), text
    return text


def _flow(text):
    """parses `[ a, [ 1, 2 ], c ]`"""
    tokens = re.findall(r'\[|\]|,|[^\[\],\s]+', text)
    pos = 0

    def parse():
        nonlocal pos
        token = tokens[pos]
        if token == '[':
            pos += 1
            items = []
            while tokens[pos] != ']':
                items.append(parse())
                if tokens[pos] == ',':
                    pos += 1
            pos += 1
            return items
        pos += 1
        return _scalar(token)

    value = parse()
    assert pos == len(tokens), text
    return value


def _value(text):
    text = text.strip()
    return _flow(text) if text.startswith('[') else _scalar(text)


def load_yaml(path):
    lines = []
    with open(path) as f:
        for raw in f:
            line = raw.rstrip('\n')
            if '#' in line:
                line = line[: line.index('#')]
            if line.strip():
                lines.append(line.rstrip())

    pos = 0

    def indent(line):
        return len(line) - len(line.lstrip(' '))

    def parse_block(ind):
        nonlocal pos
        if lines[pos].lstrip().startswith('- '):
            return parse_list(ind)
        return parse_map(ind)

    def parse_map(ind, first=None):
        nonlocal pos
        result = {}
        pending = first
        while pending is not None or (
            pos < len(lines)
            and indent(lines[pos]) == ind
            and not lines[pos].lstrip().startswith('- ')
        ):
            if pending is not None:
                content, pending = pending, None
            else:
                content = lines[pos].strip()
                pos += 1
            key, _, rest = content.partition(':')
            # keys never contain ':'; values may (`module:name`)
            key = key.strip()
            assert key and key not in result, content
            if rest.strip():
                result[key] = _value(rest)
            else:
                assert pos < len(lines) and indent(lines[pos]) > ind
                result[key] = parse_block(indent(lines[pos]))
        return result

    def parse_list(ind):
        nonlocal pos
        result = []
        while (
            pos < len(lines)
            and indent(lines[pos]) == ind
            and lines[pos].lstrip().startswith('- ')
        ):
            content = lines[pos].strip()[2:].strip()
            pos += 1
            if re.match(r'[A-Za-z_][A-Za-z0-9_]*:(\s|$)', content):
                # a mapping item;  its other keys are indented by two more
                result.append(parse_map(ind + 2, first=content))
            else:
                result.append(_value(content))
        return result

    data = parse_block(0)
    assert pos == len(lines), (path, pos)
    return data


# ---------------------------------------------------------------------------
# reference:  the environment assembled by hand from the named components
# ---------------------------------------------------------------------------

KINDS = {
    # kind: (module, registry, number of leading protocol parameters)
    'reset': (reset_fs, reset_fs.reset_function_registry, 0),
    'transition': (transition_fs, transition_fs.transition_function_registry, 2),
    'reward': (reward_fs, reward_fs.reward_function_registry, 3),
    'observation': (
        observation_fs,
        observation_fs.observation_function_registry,
        1,
    ),
    'visibility': (
        visibility_fs,
        visibility_fs.visibility_function_registry,
        2,
    ),
    'terminating': (
        terminating_fs,
        terminating_fs.terminating_function_registry,
        3,
    ),
}


def ref_strip(name):
    if ':' in name:
        module_name, name = name.split(':')
        __import__(module_name)
    return name


def ref_object_type(name):
    name = ref_strip(name)
    return next(t for t in grid_object_registry if t.__name__ == name)


def ref_accepted(kind, function):
    """names of the parameters of `function` which are not protocol ones"""
    _, _, n = KINDS[kind]
    names = list(inspect.signature(function).parameters)
    return [name for name in names[n:] if name != 'rng']


def ref_required(kind, function):
    parameters = inspect.signature(function).parameters
    return [
        name
        for name in ref_accepted(kind, function)
        if parameters[name].default is inspect.Parameter.empty
    ]


def ref_convert(key, value):
    if key == 'transition_functions':
        return [ref_component('transition', d) for d in value]
    if key == 'reward_functions':
        return [ref_component('reward', d) for d in value]
    if key == 'terminating_functions':
        return [ref_component('terminating', d) for d in value]
    if key == 'reward_function':
        return ref_component('reward', value)
    if key == 'visibility_function':
        return ref_component('visibility', value)
    if key == 'distance_function':
        return {
            'manhattan': Position.manhattan_distance,
            'euclidean': Position.euclidean_distance,
        }[value]
    if key == 'shape':
        return Shape(value[0], value[1])
    if key == 'layout':
        return (value[0], value[1])
    if key == 'area':
        return Area(tuple(value[0]), tuple(value[1]))
    if key == 'object_type':
        return next(t for t in grid_object_registry if t.__name__ == value)
    if key == 'colors':
        return {Color[name] for name in value}
    return value


def ref_component(kind, data):
    data = dict(data)
    name = ref_strip(data.pop('name'))
    _, registry, _ = KINDS[kind]
    function = registry[name]
    accepted = ref_accepted(kind, function)
    kwargs = {
        key: ref_convert(key, value)
        for key, value in data.items()
        if key in accepted
    }
    return partial(function, **kwargs)


def ref_env(data):
    reset_function = ref_component('reset', data['reset_function'])
    transition_functions = [
        ref_component('transition', d) for d in data['transition_functions']
    ]
    reward_functions = [
        ref_component('reward', d) for d in data['reward_functions']
    ]
    observation_function = ref_component(
        'observation', data['observation_function']
    )
    terminating_function = ref_component(
        'terminating', data['terminating_function']
    )

    def transition_function(state, action, *, rng=None):
        for f in transition_functions:
            f(state, action, rng=rng)

    def reward_function(state, action, next_state, *, rng=None):
        return sum(f(state, action, next_state, rng=rng) for f in reward_functions)

    state = reset_function()
    observation = observation_function(state)

    state_space = StateSpace(
        state.grid.shape,
        [ref_object_type(n) for n in data['state_space']['objects']],
        [Color[n] for n in data['state_space']['colors']],
    )
    observation_space = ObservationSpace(
        observation.grid.shape,
        [ref_object_type(n) for n in data['observation_space']['objects']],
        [Color[n] for n in data['observation_space']['colors']],
    )
    action_space = ActionSpace(
        [Action[n] for n in data['action_space']]
        if 'action_space' in data
        else list(Action)
    )
    return GridWorld(
        state_space,
        action_space,
        observation_space,
        reset_function,
        transition_function,
        observation_function,
        reward_function,
        terminating_function,
    )


# ---------------------------------------------------------------------------
# behavioural comparison
# ---------------------------------------------------------------------------


def fingerprint(x):
    grid = x.grid
    cells = tuple(
        tuple(
            (type(obj).__name__, obj.state_index, obj.color.name, repr(obj))
            for obj in row
        )
        for row in grid.objects
    )
    agent = x.agent
    return (
        grid.shape.as_tuple,
        cells,
        agent.position.yx,
        agent.orientation.name,
        repr(agent.grid_object),
    )


def space_fingerprint(env):
    s, a, o = env.state_space, env.action_space, env.observation_space
    return (
        s.grid_shape.as_tuple,
        [t.__name__ for t in s.object_types],
        [c.name for c in s.colors],
        [x.name for x in a.actions],
        o.grid_shape.as_tuple,
        [t.__name__ for t in o.object_types],
        [c.name for c in o.colors],
        o.area,
    )


def rollout(env, seed, actions):
    env.set_seed(seed)
    env.reset()
    trace = [(fingerprint(env.state), fingerprint(env.observation))]
    for action in actions:
        reward, done = env.step(action)
        trace.append(
            (
                action.name,
                float(reward),
                bool(done),
                fingerprint(env.state),
                fingerprint(env.observation),
            )
        )
        if done:
            env.reset()
            trace.append((fingerprint(env.state), fingerprint(env.observation)))
    return trace


def action_sequences(env, seed):
    actions = env.action_space.actions
    rng = np.random.default_rng(1000 + seed)
    sequences = [
        [actions[i] for i in rng.integers(len(actions), size=40)],
        # every action in turn, twice
        list(actions) * 2,
        # walk into the border / corner and keep bumping
        [Action.MOVE_FORWARD] * 12 + [Action.TURN_LEFT] + [Action.MOVE_FORWARD] * 12,
        [Action.TURN_RIGHT, Action.MOVE_LEFT] * 8,
        [],
    ]
    return [
        [a for a in sequence if env.action_space.contains(a)]
        for sequence in sequences
    ]


def same_behaviour(env_a, env_b, label, seeds=(0, 1, 7)):
    check(
        space_fingerprint(env_a) == space_fingerprint(env_b),
        f'{label}: spaces differ',
    )
    for seed in seeds:
        for i, actions in enumerate(action_sequences(env_a, seed)):
            check(
                rollout(env_a, seed, actions) == rollout(env_b, seed, actions),
                f'{label}: seed {seed} sequence {i} differs',
            )


# ---------------------------------------------------------------------------
# 1. shipped configurations
# ---------------------------------------------------------------------------

yaml_dir = os.path.join(ROOT, 'yaml')
pkg_dir = os.path.join(ROOT, 'gym_gridverse', 'registered_envs')
examples_dir = os.path.join(ROOT, 'examples')

yaml_names = sorted(n for n in os.listdir(yaml_dir) if n.endswith('.yaml'))
pkg_names = sorted(n for n in os.listdir(pkg_dir) if n.endswith('.yaml'))
check(yaml_names == pkg_names and len(yaml_names) == 21, 'yaml/ vs packaged')
for name in yaml_names:
    with open(os.path.join(yaml_dir, name), 'rb') as f, open(
        os.path.join(pkg_dir, name), 'rb'
    ) as g:
        check(f.read() == g.read(), f'packaged copy of {name} differs')

import gym_gridverse.gym as gv_gym  # noqa: E402

check(
    sorted(gv_gym.STRING_TO_YAML_FILE.values()) == yaml_names,
    'registered gym ids do not point to the shipped files',
)

config_paths = (
    [os.path.join(yaml_dir, n) for n in yaml_names]
    + [os.path.join(pkg_dir, n) for n in pkg_names]
    + sorted(
        os.path.join(examples_dir, n)
        for n in os.listdir(examples_dir)
        if n.endswith('.yaml')
    )
)
configs = {path: load_yaml(path) for path in config_paths}

# the loader itself, on one file whose content is written out here
check(
    configs[os.path.join(yaml_dir, 'gv_keydoor.5x5.yaml')]
    == {
        'state_space': {
            'objects': ['Wall', 'Floor', 'Exit', 'Door', 'Key'],
            'colors': ['NONE', 'YELLOW'],
        },
        'observation_space': {
            'objects': ['Wall', 'Floor', 'Exit', 'Door', 'Key'],
            'colors': ['NONE', 'YELLOW'],
        },
        'reset_function': {'name': 'keydoor', 'shape': [5, 5]},
        'transition_functions': [
            {'name': 'move_agent'},
            {'name': 'turn_agent'},
            {'name': 'actuate_door'},
            {'name': 'pickndrop'},
        ],
        'reward_functions': [
            {'name': 'reach_exit', 'reward_on': 5.0, 'reward_off': 0.0},
            {
                'name': 'pickndrop',
                'object_type': 'Key',
                'reward_pick': 1.0,
                'reward_drop': -1.0,
            },
            {'name': 'actuate_door', 'reward_open': 1.0, 'reward_close': -1.0},
            {
                'name': 'getting_closer',
                'distance_function': 'manhattan',
                'object_type': 'Exit',
                'reward_closer': 0.2,
                'reward_further': -0.2,
            },
            {'name': 'living_reward', 'reward': -0.05},
        ],
        'observation_function': {
            'name': 'partially_occluded',
            'area': [[-6, 0], [-3, 3]],
        },
        'terminating_function': {'name': 'reach_exit'},
    },
    'mini yaml loader',
)

for path, data in configs.items():
    label = os.path.relpath(path, ROOT)
    check(schemas['env'].is_valid(data), f'{label} does not validate')

    original = copy.deepcopy(data)
    validated = schemas['env'].validate(data)
    check(validated == original and data == original, f'{label}: validate')

    reset_gv_rng(0)
    env_1 = yfactory.factory_env_from_data(data)
    check(data == original, f'{label}: building changed the input data')
    reset_gv_rng(0)
    env_2 = yfactory.factory_env_from_data(data)
    check(data == original, f'{label}: building changed the input data (2)')
    reset_gv_rng(0)
    env_ref = ref_env(original)

    seeds = (0, 7) if path.startswith(yaml_dir) or path.startswith(examples_dir) else (3,)
    same_behaviour(env_1, env_ref, f'{label} vs hand-assembled', seeds)
    same_behaviour(env_1, env_2, f'{label} built twice', seeds[:1])
    # re-seeding an env reproduces its own trajectory
    actions = action_sequences(env_1, 5)[0]
    check(
        rollout(env_1, 5, actions) == rollout(env_1, 5, actions),
        f'{label}: re-seeding',
    )

# ---------------------------------------------------------------------------
# 2. extra hand-written configurations (awkward parameters)
# ---------------------------------------------------------------------------

base = copy.deepcopy(configs[os.path.join(yaml_dir, 'gv_empty.4x4.yaml')])


def variant(**updates):
    data = copy.deepcopy(base)
    data.update(copy.deepcopy(updates))
    return data


ALL_OBJECTS = ['Wall', 'Floor', 'Exit', 'Door', 'Key', 'MovingObstacle', 'Box', 'Telepod', 'Beacon']
ALL_COLORS = [c.name for c in Color]
SPACES = {
    'state_space': {'objects': ALL_OBJECTS, 'colors': ALL_COLORS},
    'observation_space': {'objects': ALL_OBJECTS, 'colors': ALL_COLORS},
}

extra_configs = {
    'non-square empty, random agent/exit, asymmetric area': variant(
        **SPACES,
        reset_function={
            'name': 'empty',
            'shape': [4, 9],
            'random_agent': True,
            'random_exit': True,
            'num_obstacles': 3,  # not accepted by `empty`: ignored
        },
        observation_function={'name': 'raytracing', 'area': [[-2, 1], [-1, 3]]},
    ),
    'single action, 1x1 view': variant(
        **SPACES,
        action_space=['TURN_LEFT'],
        observation_function={'name': 'fully_transparent', 'area': [[0, 0], [0, 0]]},
    ),
    'nested functions': variant(
        **SPACES,
        reset_function={
            'name': 'memory_rooms',
            'shape': [9, 13],
            'layout': [2, 3],
            'colors': ['RED', 'GREEN', 'BLUE'],
            'num_beacons': 1,
            'num_exits': 3,
        },
        transition_functions=[
            {
                'name': 'chain',
                'transition_functions': [
                    {'name': 'move_agent'},
                    {'name': 'turn_agent', 'reward': 3.0},
                ],
            },
            {'name': 'pickndrop'},
        ],
        reward_functions=[
            {
                'name': 'reduce_sum',
                'reward_functions': [
                    {'name': 'living_reward', 'reward': -0.25},
                    {'name': 'reach_exit_memory', 'reward_good': 2.0},
                ],
            },
            {
                'name': 'proportional_to_distance',
                'distance_function': 'euclidean',
                'object_type': 'Beacon',
                'reward_per_unit_distance': -0.125,
            },
            {'name': 'bump_into_wall', 'reward': -0.5},
        ],
        observation_function={
            'name': 'from_visibility',
            'area': [[-3, 0], [-2, 2]],
            'visibility_function': {
                'name': 'raytracing',
                'absolute_counts': False,
                'threshold': 0.5,
                'shape': [3, 3],  # reserved key, not accepted: ignored
            },
        },
        terminating_function={
            'name': 'reduce_any',
            'terminating_functions': [
                {'name': 'reach_exit'},
                {'name': 'overlap', 'object_type': 'Beacon'},
                {'name': 'bump_into_wall'},
            ],
        },
    ),
    'crossing with object_type, dynamic obstacles': variant(
        **SPACES,
        reset_function={
            'name': 'crossing',
            'shape': [7, 9],
            'num_rivers': 2,
            'object_type': 'Wall',
        },
        transition_functions=[
            {'name': 'move_agent'},
            {'name': 'turn_agent'},
            {'name': 'move_obstacles'},
        ],
        reward_functions=[
            {'name': 'getting_closer_shortest_path', 'object_type': 'Exit'},
            {'name': 'overlap', 'object_type': 'Exit', 'reward_on': 4.0},
        ],
        observation_function={
            'name': 'stochastic_raytracing',
            'area': [[-4, 2], [-3, 1]],
        },
        terminating_function={
            'name': 'reduce_all',
            'terminating_functions': [{'name': 'reach_exit'}],
        },
    ),
}

for label, data in extra_configs.items():
    check(schemas['env'].is_valid(data), f'{label} does not validate')
    original = copy.deepcopy(data)
    reset_gv_rng(0)
    env = yfactory.factory_env_from_data(data)
    check(data == original, f'{label}: building changed the input data')
    reset_gv_rng(0)
    env_ref = ref_env(original)
    same_behaviour(env, env_ref, label)

# ---------------------------------------------------------------------------
# 3. systematic corruptions are rejected (schema or value error)
# ---------------------------------------------------------------------------

REJECT = (SchemaError, ValueError)


def rejected(data, label):
    original = copy.deepcopy(data)
    try:
        yfactory.factory_env_from_data(data)
    except REJECT:
        check(data == original, f'{label}: rejected but input changed')
        return
    except Exception as error:  # noqa
        check(False, f'{label}: raised {type(error).__name__}: {error}')
    check(False, f'{label}: was not rejected')


BAD_SHAPES = [[5], [5, 5, 5], [0, 5], [5, -1], [5.0, 5], ['5', 5], [], 5, '55', None, [[5, 5]]]
BAD_COLORS = [['PURPLE'], ['red'], [], ['RED', 'RED'], 'RED', [0], [None], None]
BAD_ACTIONS = [['JUMP'], ['move_forward'], [], ['TURN_LEFT', 'TURN_LEFT'], 'TURN_LEFT', [0], None]
# NOTE: `area` is not one of the reserved keys of the function schemas, so only
# its ordering is checked (by Area itself)
BAD_AREAS = [[[0, -6], [-3, 3]], [[-6, 0], [3, -3]], [[1, 0], [1, 0]]]
BAD_NAMES = ['', 'no_such_function', 'Keydoor', 'reach_exit ', 5, None, ['keydoor']]

FUNCTION_KEYS = ['reset_function', 'observation_function', 'terminating_function']
LIST_KEYS = ['transition_functions', 'reward_functions']

n_corruptions = 0
for path, data in configs.items():
    if not (path.startswith(yaml_dir) or path.startswith(examples_dir)):
        continue
    label = os.path.relpath(path, ROOT)

    corruptions = []

    # missing / unknown top-level entries
    for key in list(data):
        if key == 'action_space':
            continue
        d = copy.deepcopy(data)
        del d[key]
        corruptions.append((f'without {key}', d))
    d = copy.deepcopy(data)
    d['visibility_function'] = {'name': 'raytracing'}
    corruptions.append(('unknown top-level key', d))

    # wrong containers
    for key in list(data):
        for bad in (None, [], {}, 'x', 3):
            if key == 'action_space' and bad == []:
                pass
            d = copy.deepcopy(data)
            d[key] = bad
            corruptions.append((f'{key}={bad!r}', d))

    # names
    for key in FUNCTION_KEYS:
        for bad in BAD_NAMES:
            d = copy.deepcopy(data)
            d[key]['name'] = bad
            corruptions.append((f'{key}.name={bad!r}', d))
        d = copy.deepcopy(data)
        del d[key]['name']
        corruptions.append((f'{key} without name', d))
    for key in LIST_KEYS:
        for i in range(len(data[key])):
            for bad in BAD_NAMES:
                d = copy.deepcopy(data)
                d[key][i]['name'] = bad
                corruptions.append((f'{key}[{i}].name={bad!r}', d))
        d = copy.deepcopy(data)
        d[key].append('move_agent')
        corruptions.append((f'{key} with a non-mapping item', d))

    # missing required parameters
    for kind, key in [('reset', 'reset_function'), ('observation', 'observation_function'), ('terminating', 'terminating_function')]:
        name = ref_strip(data[key]['name'])
        for parameter in ref_required(kind, KINDS[kind][1][name]):
            d = copy.deepcopy(data)
            del d[key][parameter]
            corruptions.append((f'{key} without {parameter}', d))
    for kind, key in [('transition', 'transition_functions'), ('reward', 'reward_functions')]:
        for i, item in enumerate(data[key]):
            name = ref_strip(item['name'])
            for parameter in ref_required(kind, KINDS[kind][1][name]):
                d = copy.deepcopy(data)
                del d[key][i][parameter]
                corruptions.append((f'{key}[{i}] without {parameter}', d))

    # shapes, colours, actions, areas, object types, distance functions
    if 'shape' in data['reset_function']:
        for bad in BAD_SHAPES:
            d = copy.deepcopy(data)
            d['reset_function']['shape'] = bad
            corruptions.append((f'shape={bad!r}', d))
    # a reserved key is validated even where the component ignores it
    for bad in BAD_SHAPES:
        d = copy.deepcopy(data)
        d['terminating_function']['shape'] = bad
        corruptions.append((f'terminating shape={bad!r}', d))
        d = copy.deepcopy(data)
        d['reward_functions'][0]['layout'] = bad
        corruptions.append((f'reward layout={bad!r}', d))
    for bad in BAD_COLORS:
        for space in ('state_space', 'observation_space'):
            d = copy.deepcopy(data)
            d[space]['colors'] = bad
            corruptions.append((f'{space}.colors={bad!r}', d))
        d = copy.deepcopy(data)
        d['reset_function']['colors'] = bad
        corruptions.append((f'reset colors={bad!r}', d))
    for space in ('state_space', 'observation_space'):
        for bad in ([], ['Wall', 'Wall'], ['Wall', 'NoSuchObject'], ['wall'], 'Wall', [5], None):
            d = copy.deepcopy(data)
            d[space]['objects'] = bad
            corruptions.append((f'{space}.objects={bad!r}', d))
        for missing in ('objects', 'colors'):
            d = copy.deepcopy(data)
            del d[space][missing]
            corruptions.append((f'{space} without {missing}', d))
        d = copy.deepcopy(data)
        d[space]['shape'] = [5, 5]
        corruptions.append((f'{space} with extra key', d))
    for bad in BAD_ACTIONS:
        d = copy.deepcopy(data)
        d['action_space'] = bad
        corruptions.append((f'action_space={bad!r}', d))
    for bad in BAD_AREAS:
        d = copy.deepcopy(data)
        d['observation_function']['area'] = bad
        corruptions.append((f'area={bad!r}', d))
    for i, item in enumerate(data['reward_functions']):
        if 'object_type' in item:
            for bad in ('NoSuchObject', 'exit', 5, None, ['Exit']):
                d = copy.deepcopy(data)
                d['reward_functions'][i]['object_type'] = bad
                corruptions.append((f'reward[{i}].object_type={bad!r}', d))
        if 'distance_function' in item:
            for bad in ('chebyshev', 'Manhattan', 5, None):
                d = copy.deepcopy(data)
                d['reward_functions'][i]['distance_function'] = bad
                corruptions.append((f'reward[{i}].distance_function={bad!r}', d))
    # nested function entries are validated recursively
    d = copy.deepcopy(data)
    d['terminating_function'] = {
        'name': 'reduce_any',
        'terminating_functions': [{'name': 'reach_exit'}, {'nom': 'reach_exit'}],
    }
    corruptions.append(('nested terminating without name', d))
    d = copy.deepcopy(data)
    d['terminating_function'] = {'name': 'reduce_any', 'terminating_functions': []}
    corruptions.append(('nested terminating empty', d))
    d = copy.deepcopy(data)
    d['reward_functions'].append(
        {'name': 'reduce_sum', 'reward_functions': [{'name': 'living_reward', 'shape': [0, 1]}]}
    )
    corruptions.append(('nested reward with bad shape', d))
    d = copy.deepcopy(data)
    d['reward_functions'].append({'name': 'reduce_sum', 'reward_functions': []})
    corruptions.append(('nested reward empty', d))
    d = copy.deepcopy(data)
    d['transition_functions'].append(
        {'name': 'chain', 'transition_functions': [{'name': 'no_such_function'}]}
    )
    corruptions.append(('nested transition unknown', d))

    for what, d in corruptions:
        if d == data:
            continue
        rejected(d, f'{label} [{what}]')
        n_corruptions += 1

    # controls:  harmless edits still build the described environment
    d = copy.deepcopy(data)
    d['terminating_function']['shape'] = [2, 3]
    d['terminating_function']['some_unknown_parameter'] = {'a': [1, 2]}
    d['reward_functions'][0]['layout'] = [1, 1]
    d['reward_functions'][0]['colors'] = ['NONE']
    reset_gv_rng(0)
    env = yfactory.factory_env_from_data(d)
    reset_gv_rng(0)
    same_behaviour(env, ref_env(data), f'{label} with ignored parameters', (2,))

# ---------------------------------------------------------------------------
# 4. the schemas themselves (this is the layer change A rewrites)
# ---------------------------------------------------------------------------

EXPECTED_KEYS = [
    'shape', 'layout', 'area', 'object_type', 'action', 'color',
    'object_types', 'actions', 'colors',
    'reset_function', 'transition_function', 'reward_function',
    'observation_function', 'visibility_function', 'terminating_function',
    'distance_function',
    'reset_functions', 'transition_functions', 'reward_functions',
    'terminating_functions',
    'state_space', 'action_space', 'observation_space', 'env',
]  # fmt: skip
check(list(schemas) == EXPECTED_KEYS, f'schema keys: {list(schemas)}')
check(all(isinstance(s, Schema) for s in schemas.values()), 'schema types')

FUNCTION_SCHEMAS = {
    'reset_function': 'A reset function',
    'transition_function': 'A transition function',
    'reward_function': 'A reward function',
    'observation_function': 'An observation function',
    'visibility_function': 'A visibility function',
    'terminating_function': 'A terminating function',
}
RESERVED = [
    'reset_function', 'transition_function', 'reward_function',
    'terminating_function',
    'reset_functions', 'transition_functions', 'reward_functions',
    'terminating_functions',
    'shape', 'layout', 'object_type', 'colors',
]  # fmt: skip

for key, description in FUNCTION_SCHEMAS.items():
    s = schemas[key]
    check(s.description == description, f'{key} description')
    check(s.name == key and s.as_reference is True, f'{key} name/reference')
    check(isinstance(s.schema, dict), f'{key} is a mapping schema')
    optional = {
        k.schema: v for k, v in s.schema.items() if not isinstance(k, str)
    }
    check(s.schema['name'] is str, f'{key} name entry')
    check(optional.pop(object) is object, f'{key} catch-all entry')
    check(list(optional) == RESERVED, f'{key} reserved keys {list(optional)}')
    for reserved, subschema in optional.items():
        check(subschema is schemas[reserved], f'{key}.{reserved} identity')

# each function schema owns its own mapping (they are extended in place)
ids = {id(schemas[key].schema) for key in FUNCTION_SCHEMAS}
check(len(ids) == len(FUNCTION_SCHEMAS), 'function schemas share a mapping')
distinct = [k for k in EXPECTED_KEYS if k not in ('shape', 'layout')]
ids = {id(schemas[key]) for key in distinct}
check(len(ids) == len(distinct), 'schemas are distinct objects')

DESCRIPTIONS = {
    'object_types': 'A non-empty list of unique grid-object type names',
    'actions': 'A non-empty list of unique actions',
    'colors': 'A non-empty list of unique color names',
    'distance_function': 'A distance function',
    'reset_functions': 'A list of reset functions',
    'transition_functions': 'A list of transition functions',
    'reward_functions': 'A list of reward functions',
    'terminating_functions': 'A list of terminating functions',
    'state_space': 'The shape and contents of a state',
    'action_space': 'A non-empty list of unique action names',
    'observation_space': 'The shape and contents of an observation;  shape should have an odd width.',
    'shape': None, 'layout': None, 'area': None, 'object_type': None,
    'action': None, 'color': None, 'env': None,
}  # fmt: skip
for key, description in DESCRIPTIONS.items():
    check(schemas[key].description == description, f'{key} description')
    check(schemas[key].name is None, f'{key} name')
    check(schemas[key].as_reference is False, f'{key} as_reference')

VALIDITY = {
    'shape': [([1, 1], True), ([3, 8], True), ((3, 8), False), ([0, 1], False), ([1], False), ([1, 2, 3], False), ([1.0, 2], False), ([], False), ('ab', False), (None, False)],
    'layout': [([1, 1], True), ([2, 3], True), ([0, 1], False), ([1], False), ([-1, 3], False)],
    'area': [([[0, 0], [0, 0]], True), ([[-6, 0], [-3, 3]], True), ([[0, -6], [3, -3]], True), ([[0, 0]], False), ([[0, 0], [0, 0], [0, 0]], False), ([[0], [0, 0]], False), ([[0.5, 0], [0, 0]], False), ([], False), (None, False)],
    'object_type': [('Wall', True), ('', True), ('a:b', True), (5, False), (None, False), (['Wall'], False)],
    'action': [(a.name, True) for a in Action] + [('JUMP', False), ('', False), (0, False), (None, False), ('move_left', False)],
    'color': [(c.name, True) for c in Color] + [('PURPLE', False), ('none', False), (0, False), (None, False)],
    'object_types': [(['Wall'], True), (['Wall', 'Floor'], True), ([], False), (['Wall', 'Wall'], False), (['Wall', 5], False), ('Wall', False), (None, False)],
    'actions': [([a.name for a in Action], True), (['PICK_N_DROP'], True), ([], False), (['ACTUATE', 'ACTUATE'], False), (['ACTUATE', 'nope'], False), ('ACTUATE', False)],
    'colors': [([c.name for c in Color], True), (['NONE'], True), ([], False), (['RED', 'RED'], False), (['RED', 'PINK'], False), ('RED', False)],
    'distance_function': [('manhattan', True), ('euclidean', True), ('Manhattan', False), ('', False), (None, False), (['manhattan'], False)],
    'action_space': [(['TURN_LEFT'], True), ([], False), (['TURN_LEFT'] * 2, False), ({'actions': ['TURN_LEFT']}, False)],
    'state_space': [({'objects': ['Wall'], 'colors': ['NONE']}, True), ({'objects': ['Wall']}, False), ({'colors': ['NONE']}, False), ({'objects': [], 'colors': ['NONE']}, False), ({'objects': ['Wall'], 'colors': ['NONE'], 'shape': [2, 2]}, False), ([], False)],
    'observation_space': [({'objects': ['Wall'], 'colors': ['NONE']}, True), ({'objects': ['Wall']}, False), ({'objects': ['Wall'], 'colors': []}, False), ({'objects': ['Wall'], 'colors': ['NONE'], 'area': [[0, 0], [0, 0]]}, False)],
}  # fmt: skip
FUNCTION_VALIDITY = [
    ({'name': 'x'}, True),
    ({'name': ''}, True),
    ({'name': 'x', 'anything': {'goes': [1, None]}, 7: 8}, True),
    ({'name': 'x', 'shape': [2, 3], 'layout': [1, 1], 'object_type': 'Wall', 'colors': ['RED']}, True),
    ({'name': 'x', 'reward_function': {'name': 'y', 'reward_functions': [{'name': 'z'}]}}, True),
    ({'name': 'x', 'reset_functions': [{'name': 'y'}], 'transition_function': {'name': 'y'}, 'terminating_function': {'name': 'y'}}, True),
    ({'name': 'x', 'area': 'unchecked', 'distance_function': 5, 'visibility_function': 5, 'action': 5}, True),  # not reserved
    ({}, False),
    ({'nom': 'x'}, False),
    ({'name': 5}, False),
    ({'name': None}, False),
    ({'name': 'x', 'shape': [2]}, False),
    ({'name': 'x', 'shape': [0, 2]}, False),
    ({'name': 'x', 'layout': [2, 0]}, False),
    ({'name': 'x', 'object_type': 5}, False),
    ({'name': 'x', 'colors': []}, False),
    ({'name': 'x', 'colors': ['RED', 'RED']}, False),
    ({'name': 'x', 'colors': ['PINK']}, False),
    ({'name': 'x', 'reward_function': 'y'}, False),
    ({'name': 'x', 'reward_function': {}}, False),
    ({'name': 'x', 'reward_functions': []}, False),
    ({'name': 'x', 'reward_functions': [{'name': 'y'}, {}]}, False),
    ({'name': 'x', 'reset_function': {'name': 'y', 'shape': [1]}}, False),
    ({'name': 'x', 'transition_functions': {'name': 'y'}}, False),
    ({'name': 'x', 'terminating_functions': [{'name': 'y', 'terminating_functions': [{'name': 'z', 'colors': []}]}]}, False),
    ({'name': 'x', 'terminating_functions': [{'name': 'y', 'terminating_functions': [{'name': 'z', 'colors': ['BLUE']}]}]}, True),
    ('x', False),
    (['name'], False),
    (None, False),
]  # fmt: skip
for key in FUNCTION_SCHEMAS:
    VALIDITY[key] = FUNCTION_VALIDITY
for key in ('reset_functions', 'transition_functions', 'reward_functions', 'terminating_functions'):
    VALIDITY[key] = (
        [([d], ok) for d, ok in FUNCTION_VALIDITY]
        + [([{'name': 'ok'}, d], ok) for d, ok in FUNCTION_VALIDITY]
        + [([], False), ({'name': 'x'}, False), (None, False), ([{'name': 'x'}] * 3, True)]
    )  # fmt: skip

for key, cases in VALIDITY.items():
    for data, expected in cases:
        original = copy.deepcopy(data)
        check(
            schemas[key].is_valid(data) == expected,
            f'schemas[{key!r}].is_valid({data!r}) != {expected}',
        )
        if expected:
            out = schemas[key].validate(data)
            check(out == original and data == original, f'{key} validate {data!r}')
            # validation returns new containers (the factory pops from them)
            if isinstance(data, (dict, list)):
                check(out is not data, f'{key} validate returns a copy')
        else:
            try:
                schemas[key].validate(data)
            except SchemaError:
                pass
            else:
                check(False, f'{key} validate accepted {data!r}')

# error text of the general-purpose schemas
for key, data, fragment in [
    ('shape', [1], 'should have length 2'),
    ('shape', [0, 1], 'should be positive'),
    ('colors', [], 'should not be empty'),
    ('actions', ['ACTUATE'] * 2, 'should have unique elements'),
    ('reward_functions', [], 'should not be empty'),
    ('env', {}, 'Missing key'),
]:
    try:
        schemas[key].validate(data)
    except SchemaError as error:
        check(fragment in str(error), f'{key} error text: {error}')
    else:
        check(False, f'{key} accepted {data!r}')

# the JSON schema generated by scripts/gv_yaml_schema.py
json_schema = schemas['env'].json_schema('TO-BE-REMOVED')
digest = hashlib.sha256(
    json.dumps(json_schema, sort_keys=True).encode()
).hexdigest()
EXPECTED_DIGEST = 'e87c042dfbf4aab8569078dbaf477f1af5a3ce2eda4204cb423aafadb2f26611'
check(digest == EXPECTED_DIGEST, f'json schema digest {digest}')
check(
    sorted(json_schema['definitions'])
    == sorted(
        [
            'reset_function', 'transition_function', 'reward_function',
            'terminating_function', 'observation_function',
        ]
    ),
    f"json schema definitions {sorted(json_schema['definitions'])}",
)  # fmt: skip

# ---------------------------------------------------------------------------
# 5. components by name behave like the underlying function
# ---------------------------------------------------------------------------

from gym_gridverse.agent import Agent  # noqa: E402
from gym_gridverse.geometry import Orientation  # noqa: E402
from gym_gridverse.grid import Grid  # noqa: E402
from gym_gridverse.grid_object import Beacon, Exit, Floor, Wall  # noqa: E402
from gym_gridverse.state import State  # noqa: E402

PARAMETERS = {
    'shape': Shape(7, 9),
    'layout': (2, 2),
    'random_agent': True,
    'random_exit': True,
    'num_obstacles': 2,
    'num_rivers': 2,
    'object_type': Exit,
    'colors': {Color.RED, Color.BLUE},
    'num_beacons': 1,
    'num_exits': 2,
    'reward_on': 2.5,
    'reward_off': -0.5,
    'reward': -0.75,
    'distance_function': Position.euclidean_distance,
    'reward_per_unit_distance': -0.5,
    'reward_closer': 0.5,
    'reward_further': -1.5,
    'reward_open': 3.0,
    'reward_close': -3.0,
    'reward_pick': 2.0,
    'reward_drop': -2.0,
    'reward_good': 4.0,
    'reward_bad': -4.0,
    'area': Area((-3, 0), (-2, 1)),
    'absolute_counts': False,
    'threshold': 0.25,
    'reduction': None,  # set per kind
    'not_a_parameter': object(),
    'rng_seed': 3,
}


def sample_states():
    states = []
    for shape, position, orientation in [
        ((4, 7), (1, 1), Orientation.F),
        ((4, 7), (2, 5), Orientation.R),
        ((6, 3), (4, 1), Orientation.B),
        ((3, 3), (1, 1), Orientation.L),
        ((4, 7), (3, 3), Orientation.F),  # bottom row, on the border
        ((5, 4), (4, 0), Orientation.R),  # bottom-left corner
    ]:
        grid = Grid.from_shape(shape, factory=Floor)
        for p in grid.area.positions('border'):
            grid[p] = Wall()
        grid[shape[0] - 2, shape[1] - 2] = Exit()
        grid[0, 0] = Beacon(Color.NONE)
        states.append(State(grid, Agent(Position(*position), orientation)))
    return states


def call_protocol(kind, function, seed):
    """calls a built component on a fixed set of protocol arguments"""

    def guarded(*args, **kwargs):
        # some components are not implemented for every input
        try:
            return function(*args, **kwargs)
        except NotImplementedError:
            return None

    return _call_protocol(kind, guarded, seed)


def _call_protocol(kind, function, seed):
    results = []
    if kind == 'reset':
        for s in (seed, seed + 1):
            results.append(fingerprint(function(rng=np.random.default_rng(s))))
        return results
    for state in sample_states():
        rng = np.random.default_rng(seed)
        if kind == 'observation':
            observation = function(state, rng=rng)
            results.append(None if observation is None else fingerprint(observation))
        elif kind == 'visibility':
            visibility = function(state.grid, state.agent.position, rng=rng)
            results.append(None if visibility is None else visibility.tolist())
        else:
            for action in Action:
                next_state = copy.deepcopy(state)
                transition_fs.move_agent(next_state, action)
                transition_fs.turn_agent(next_state, action)
                if kind == 'transition':
                    s = copy.deepcopy(state)
                    function(s, action, rng=rng)
                    results.append(fingerprint(s))
                else:
                    results.append(function(state, action, next_state, rng=rng))
    return results


def parameter_sets(kind, function):
    accepted = ref_accepted(kind, function)
    required = ref_required(kind, function)
    full = dict(PARAMETERS)
    if kind == 'transition':
        full['transition_functions'] = [
            transition_fs.move_agent,
            transition_fs.turn_agent,
        ]
    if kind == 'reward':
        full['reward_functions'] = [
            partial(reward_fs.living_reward, reward=-0.5),
            reward_fs.reach_exit,
        ]
        full['reduction'] = lambda values: 2.0 * sum(values)
    if kind == 'terminating':
        full['terminating_functions'] = [
            terminating_fs.reach_exit,
            terminating_fs.bump_into_wall,
        ]
        full['reduction'] = lambda values: not any(values)
    if kind == 'observation':
        full['visibility_function'] = visibility_fs.partially_occluded
    everything = full
    only_required = {k: full[k] for k in required}
    only_accepted = {k: full[k] for k in accepted}
    reversed_order = dict(reversed(list(everything.items())))
    return accepted, required, [everything, only_required, only_accepted, reversed_order]


n_components = 0
for kind, (module, registry, _) in KINDS.items():
    for name, function in list(registry.items()):
        accepted, required, sets = parameter_sets(kind, function)
        for kwargs in sets:
            before = dict(kwargs)
            built = module.factory(name, **kwargs)
            check(kwargs == before, f'{kind}.{name}: factory changed its kwargs')
            direct = partial(function, **{k: kwargs[k] for k in accepted if k in kwargs})
            check(
                isinstance(built, partial) and built.func is function,
                f'{kind}.{name}: not a partial of the registered function',
            )
            check(
                built.keywords == direct.keywords
                and list(built.keywords) == [k for k in kwargs if k in accepted],
                f'{kind}.{name}: keywords {list(built.keywords)}',
            )
            check(
                call_protocol(kind, built, 11) == call_protocol(kind, direct, 11),
                f'{kind}.{name}: behaviour differs from the direct call',
            )
            n_components += 1

        # every required parameter is required;  the first missing is reported
        for missing in required:
            kwargs = {k: v for k, v in sets[0].items() if k != missing}
            try:
                module.factory(name, **kwargs)
            except ValueError as error:
                check(f'`{missing}`' in str(error), f'{kind}.{name}: {error}')
            else:
                check(False, f'{kind}.{name} built without {missing}')
        if required:
            try:
                module.factory(name)
            except ValueError as error:
                check(f'`{required[0]}`' in str(error), f'{kind}.{name}: {error}')
            else:
                check(False, f'{kind}.{name} built without parameters')

    for bad in ('', 'no_such_function', name.upper(), name + ' '):
        try:
            module.factory(bad, **sets[0])
        except ValueError:
            pass
        else:
            check(False, f'{kind}: unknown name {bad!r} accepted')

# configuration-level component factories:  same thing from plain data
for kind, function_factory in [
    ('reset', yfactory.factory_reset_function),
    ('transition', yfactory.factory_transition_function),
    ('reward', yfactory.factory_reward_function),
    ('observation', yfactory.factory_observation_function),
    ('visibility', yfactory.factory_visibility_function),
    ('terminating', yfactory.factory_terminating_function),
]:
    datas = []
    for data in list(configs.values())[:21] + list(extra_configs.values()):
        if kind in ('reset', 'observation', 'terminating'):
            datas.append(data[f'{kind}_function'])
        elif kind in ('transition', 'reward'):
            datas.extend(data[f'{kind}_functions'])
        elif 'visibility_function' in data['observation_function']:
            datas.append(data['observation_function']['visibility_function'])
    if kind == 'visibility':
        datas += [{'name': n} for n in visibility_fs.visibility_function_registry]
    for data in datas:
        original = copy.deepcopy(data)
        built = function_factory(data)
        check(data == original, f'{kind} {original}: data changed')
        again = function_factory(data)
        reference = ref_component(kind, original)
        check(built.func is reference.func, f'{kind} {original}: function')
        check(
            list(built.keywords) == list(reference.keywords),
            f'{kind} {original}: keywords',
        )
        check(
            call_protocol(kind, built, 5) == call_protocol(kind, reference, 5)
            and call_protocol(kind, again, 5) == call_protocol(kind, reference, 5),
            f'{kind} {original}: behaviour',
        )

print(
    f'ok: {CHECKS} checks, {len(configs)} configurations, '
    f'{n_corruptions} corruptions, {n_components} component builds'
)
