"""C12 demo (change A): overlap / bump rewards and terminations.

Checks `overlap`, `reach_exit`, `bump_moving_obstacle` and `bump_into_wall`
(reward and terminating versions), the composites built from them, and the
agreement between exit reward and exit termination, against a reference
implementation embedded here.  Runs identically on the pristine tree and with
the patch applied; exits 0 iff everything agrees.
"""
import copy
import itertools as itt
import os
import random
import sys
import warnings

warnings.filterwarnings('ignore')
sys.path.insert(0, os.getcwd())  # run from the worktree root

import numpy.random as rnd  # noqa: E402

from gym_gridverse.action import Action  # noqa: E402
from gym_gridverse.agent import Agent  # noqa: E402
from gym_gridverse.envs import reset_functions as reset_fs  # noqa: E402
from gym_gridverse.envs import reward_functions as reward_fs  # noqa: E402
from gym_gridverse.envs import terminating_functions as term_fs  # noqa: E402
from gym_gridverse.envs import transition_functions as trans_fs  # noqa: E402
from gym_gridverse.geometry import Orientation, Position, Shape  # noqa: E402
from gym_gridverse.grid import Grid  # noqa: E402
from gym_gridverse.grid_object import (  # noqa: E402
    Beacon,
    Color,
    Door,
    Exit,
    Floor,
    GridObject,
    Key,
    MovingObstacle,
    Wall,
)
from gym_gridverse.state import State  # noqa: E402

n_checks = 0


def check(condition, *info):
    global n_checks
    n_checks += 1
    if not condition:
        print('FAILED', *info)
        sys.exit(1)


class ThickWall(Wall):
    """a user-defined kind of wall;  must count as a wall"""


# ---------------------------------------------------------------- reference

_DELTAS = {  # heading -> (dy, dx) of `forward`
    Orientation.F: (-1, 0),
    Orientation.B: (1, 0),
    Orientation.L: (0, -1),
    Orientation.R: (0, 1),
}
_LEFT_OF = {
    Orientation.F: Orientation.L,
    Orientation.L: Orientation.B,
    Orientation.B: Orientation.R,
    Orientation.R: Orientation.F,
}


def ref_target(state, action):
    """(y, x) of the cell targeted by the attempted move"""
    y, x = state.agent.position.y, state.agent.position.x
    heading = state.agent.orientation
    if action is Action.MOVE_FORWARD:
        direction = heading
    elif action is Action.MOVE_LEFT:
        direction = _LEFT_OF[heading]
    elif action is Action.MOVE_BACKWARD:
        direction = _LEFT_OF[_LEFT_OF[heading]]
    elif action is Action.MOVE_RIGHT:
        direction = _LEFT_OF[_LEFT_OF[_LEFT_OF[heading]]]
    else:
        return y, x
    dy, dx = _DELTAS[direction]
    return y + dy, x + dx


def ref_bump(state, action):
    y, x = ref_target(state, action)
    height, width = len(state.grid.objects), len(state.grid.objects[0])
    if not (0 <= y < height and 0 <= x < width):
        return False
    return isinstance(state.grid.objects[y][x], Wall)


def ref_on(state, object_type):
    y, x = state.agent.position.y, state.agent.position.x
    return isinstance(state.grid.objects[y][x], object_type)


# ---------------------------------------------------------------- scenarios

OBJECT_FACTORIES = [
    Floor,
    Floor,
    Wall,
    Wall,
    ThickWall,
    Exit,
    lambda: Exit(Color.NONE),
    lambda: Exit(Color.RED),
    MovingObstacle,
    lambda: Door(Door.Status.OPEN, Color.NONE),
    lambda: Door(Door.Status.LOCKED, Color.BLUE),
    lambda: Key(Color.YELLOW),
    lambda: Beacon(Color.GREEN),
]
OBJECT_TYPES = [Floor, Wall, ThickWall, Exit, MovingObstacle, Door, GridObject]
SHAPES = [(1, 1), (1, 5), (5, 1), (2, 2), (3, 7), (6, 4)]
REWARD_PAIRS = [(1.0, 0.0), (-3.5, 2.25), (0.0, 0.0), (7, -7)]


def random_grid(pyrng, height, width):
    return Grid(
        [
            [pyrng.choice(OBJECT_FACTORIES)() for _ in range(width)]
            for _ in range(height)
        ]
    )


def random_state(pyrng, height, width):
    grid = random_grid(pyrng, height, width)
    position = Position(pyrng.randrange(height), pyrng.randrange(width))
    return State(grid, Agent(position, pyrng.choice(list(Orientation))))


def snapshot(state):
    return (
        [[(type(o), o.state_index, o.color) for o in row] for row in state.grid.objects],
        state.agent.position,
        state.agent.orientation,
        type(state.agent.grid_object),
    )


def check_triple(state, action, next_state, rng=None):
    """all the checks for a single (state, action, next state) triple"""
    before = snapshot(state), snapshot(next_state)

    # -- overlap, for all object types and reward values
    for object_type in OBJECT_TYPES:
        expected = ref_on(next_state, object_type)
        value = term_fs.overlap(
            state, action, next_state, object_type=object_type, rng=rng
        )
        check(value is expected, 'term overlap', object_type, value, expected)
        for reward_on, reward_off in REWARD_PAIRS:
            reward = reward_fs.overlap(
                state,
                action,
                next_state,
                object_type=object_type,
                reward_on=reward_on,
                reward_off=reward_off,
                rng=rng,
            )
            check(
                reward is (reward_on if expected else reward_off),
                'reward overlap',
                object_type,
                reward,
            )

    # -- exit: reward and termination agree
    on_exit = ref_on(next_state, Exit)
    done = term_fs.reach_exit(state, action, next_state, rng=rng)
    check(done is on_exit, 'term reach_exit', done, on_exit)
    check(reward_fs.reach_exit(state, action, next_state) == float(on_exit))
    for reward_on, reward_off in REWARD_PAIRS:
        reward = reward_fs.reach_exit(
            state,
            action,
            next_state,
            reward_on=reward_on,
            reward_off=reward_off,
            rng=rng,
        )
        check(reward is (reward_on if done else reward_off), 'reach_exit')

    # -- moving obstacles
    on_obstacle = ref_on(next_state, MovingObstacle)
    value = term_fs.bump_moving_obstacle(state, action, next_state, rng=rng)
    check(value is on_obstacle, 'term bump_moving_obstacle')
    check(
        reward_fs.bump_moving_obstacle(state, action, next_state)
        == (-1.0 if on_obstacle else 0.0)
    )
    reward = reward_fs.bump_moving_obstacle(
        state, action, next_state, reward=-2.5, rng=rng
    )
    check(reward == (-2.5 if on_obstacle else 0.0), 'bump_moving_obstacle')

    # -- walls: depends on (state, action) only
    bump = ref_bump(state, action)
    value = term_fs.bump_into_wall(state, action, next_state, rng=rng)
    check(value is bump, 'term bump_into_wall', value, bump, action)
    check(
        reward_fs.bump_into_wall(state, action, next_state)
        == (-1.0 if bump else 0.0)
    )
    for reward_value in (-1.0, 4.5, 0.0, -2):
        reward = reward_fs.bump_into_wall(
            state, action, next_state, reward=reward_value, rng=rng
        )
        check(
            reward is reward_value if bump else (reward == 0.0 and type(reward) is float),
            'reward bump_into_wall',
            reward,
            bump,
        )

    # -- composites: sum / any / all of the parts
    reward_parts = [
        reward_fs.factory('reach_exit', reward_on=5.0, reward_off=0.25),
        reward_fs.factory('bump_into_wall', reward=-0.75),
        reward_fs.factory('bump_moving_obstacle', reward=-9.0),
        reward_fs.factory('living_reward', reward=-0.125),
        reward_fs.factory('overlap', object_type=Door, reward_on=2.0),
    ]
    expected_sum = (
        (5.0 if on_exit else 0.25)
        + (-0.75 if bump else 0.0)
        + (-9.0 if on_obstacle else 0.0)
        - 0.125
        + (2.0 if ref_on(next_state, Door) else 0.0)
    )
    total = reward_fs.reduce_sum(
        state, action, next_state, reward_functions=reward_parts, rng=rng
    )
    check(total == expected_sum, 'reduce_sum', total, expected_sum)
    check(reward_fs.reduce_sum(state, action, next_state, reward_functions=[]) == 0)

    term_parts = [
        term_fs.factory('reach_exit'),
        term_fs.factory('bump_into_wall'),
        term_fs.factory('bump_moving_obstacle'),
        term_fs.factory('overlap', object_type=Door),
    ]
    flags = [on_exit, bump, on_obstacle, ref_on(next_state, Door)]
    value = term_fs.reduce_any(
        state, action, next_state, terminating_functions=term_parts, rng=rng
    )
    check(value is any(flags), 'reduce_any')
    value = term_fs.reduce_all(
        state, action, next_state, terminating_functions=term_parts, rng=rng
    )
    check(value is all(flags), 'reduce_all')
    check(term_fs.reduce_any(state, action, next_state, terminating_functions=[]) is False)
    check(term_fs.reduce_all(state, action, next_state, terminating_functions=[]) is True)

    # -- pure: nothing was modified
    check(before == (snapshot(state), snapshot(next_state)), 'states modified')


def real_next_state(state, action, rng):
    next_state = copy.deepcopy(state)
    trans_fs.chain(
        next_state,
        action,
        transition_functions=[
            trans_fs.move_obstacles,
            trans_fs.move_agent,
            trans_fs.turn_agent,
        ],
        rng=rng,
    )
    return next_state


def exhaustive_small_grids():
    pyrng = random.Random(20240612)
    nprng = rnd.default_rng(7)
    for height, width in SHAPES:
        for _ in range(3):
            grid = random_grid(pyrng, height, width)
            for y, x, heading in itt.product(
                range(height), range(width), Orientation
            ):
                state = State(grid, Agent(Position(y, x), heading))
                arbitrary = random_state(pyrng, *pyrng.choice(SHAPES))
                for action in Action:
                    check_triple(state, action, real_next_state(state, action, nprng))
                    check_triple(state, action, arbitrary, rng=nprng)
                    check_triple(state, action, state)


def border_wraparound():
    """targets outside of the grid are never walls, whatever the far side holds"""
    for height, width in [(1, 1), (1, 4), (4, 1), (3, 5)]:
        grid = Grid.from_shape((height, width), factory=Wall)
        for y, x, heading, action in itt.product(
            range(height), range(width), Orientation, Action
        ):
            state = State(grid, Agent(Position(y, x), heading))
            ty, tx = ref_target(state, action)
            inside = 0 <= ty < height and 0 <= tx < width
            value = term_fs.bump_into_wall(state, action, state)
            check(value is inside, 'border', (y, x), heading, action)
            reward = reward_fs.bump_into_wall(state, action, state, reward=-3.0)
            check(reward == (-3.0 if inside else 0.0), 'border reward')


def hand_written():
    #   0 1 2 3
    # 0 W W W W
    # 1 W . E W
    # 2 W O . W     (non-square: 3x4)
    grid = Grid(
        [
            [Wall(), Wall(), Wall(), Wall()],
            [Wall(), Floor(), Exit(), Wall()],
            [Wall(), MovingObstacle(), Floor(), Wall()],
        ]
    )
    state = State(grid, Agent(Position(1, 1), Orientation.R))
    on_exit = State(grid, Agent(Position(1, 2), Orientation.R))
    on_obstacle = State(grid, Agent(Position(2, 1), Orientation.R))

    check(reward_fs.reach_exit(state, Action.MOVE_FORWARD, on_exit) == 1.0)
    check(term_fs.reach_exit(state, Action.MOVE_FORWARD, on_exit) is True)
    check(reward_fs.reach_exit(on_exit, Action.MOVE_BACKWARD, state) == 0.0)
    check(term_fs.reach_exit(on_exit, Action.MOVE_BACKWARD, state) is False)

    # heading R: forward=east, left=north (wall), backward=west (wall)
    expected = {
        Action.MOVE_FORWARD: False,
        Action.MOVE_LEFT: True,
        Action.MOVE_BACKWARD: True,
        Action.MOVE_RIGHT: False,
        Action.TURN_LEFT: False,
        Action.TURN_RIGHT: False,
        Action.ACTUATE: False,
        Action.PICK_N_DROP: False,
    }
    for action, bump in expected.items():
        check(term_fs.bump_into_wall(state, action, state) is bump, action)
        check(
            reward_fs.bump_into_wall(state, action, state) == (-1.0 if bump else 0.0)
        )

    check(reward_fs.bump_moving_obstacle(state, Action.MOVE_RIGHT, on_obstacle) == -1.0)
    check(term_fs.bump_moving_obstacle(state, Action.MOVE_RIGHT, on_obstacle) is True)
    check(reward_fs.bump_moving_obstacle(state, Action.MOVE_RIGHT, state) == 0.0)
    check(term_fs.bump_moving_obstacle(state, Action.MOVE_RIGHT, state) is False)

    # bottom-right corner of a non-square grid, all headings
    corner_grid = Grid.from_shape((2, 5))
    corner_grid[0, 4] = Wall()
    for heading in Orientation:
        corner = State(corner_grid, Agent(Position(1, 4), heading))
        for action in Action:
            ty, tx = ref_target(corner, action)
            check(
                term_fs.bump_into_wall(corner, action, corner)
                is ((ty, tx) == (0, 4)),
                'corner',
                heading,
                action,
            )


def trajectories():
    """shipped-style configuration: exit reward paid exactly when terminating"""
    reward_function = reward_fs.factory(
        'reduce_sum',
        reward_functions=[
            reward_fs.factory('reach_exit', reward_on=10.0),
            reward_fs.factory('bump_moving_obstacle', reward=-4.0),
            reward_fs.factory('bump_into_wall', reward=-0.5),
            reward_fs.factory('living_reward', reward=-0.25),
        ],
    )
    exit_reward = reward_fs.factory('reach_exit', reward_on=10.0)
    terminating_function = term_fs.factory(
        'reduce_any',
        terminating_functions=[
            term_fs.factory('reach_exit'),
            term_fs.factory('bump_moving_obstacle'),
        ],
    )

    def run(seed, shape, num_obstacles):
        rng = rnd.default_rng(seed)
        state = reset_fs.dynamic_obstacles(
            Shape(*shape), num_obstacles, random_agent=True, rng=rng
        )
        actions = list(Action)
        trace = []
        for _ in range(60):
            action = actions[rng.integers(len(actions))]
            next_state = real_next_state(state, action, rng)
            reward = reward_function(state, action, next_state, rng=rng)
            done = terminating_function(state, action, next_state, rng=rng)

            on_exit = ref_on(next_state, Exit)
            on_obstacle = ref_on(next_state, MovingObstacle)
            bump = ref_bump(state, action)
            check(done is (on_exit or on_obstacle), 'trajectory done')
            check(
                reward
                == (10.0 if on_exit else 0.0)
                + (-4.0 if on_obstacle else 0.0)
                + (-0.5 if bump else 0.0)
                - 0.25,
                'trajectory reward',
            )
            paid = exit_reward(state, action, next_state) == 10.0
            check(paid is term_fs.reach_exit(state, action, next_state))
            trace.append((reward, done, next_state.agent.position))
            state = next_state
            if done:
                state = reset_fs.dynamic_obstacles(
                    Shape(*shape), num_obstacles, random_agent=True, rng=rng
                )
        return trace

    configurations = [(0, (5, 9), 3), (1, (8, 5), 6), (2, (6, 6), 0), (3, (5, 5), 7)]
    # several environments in one process, interleaved, and re-seeded
    first = [run(*configuration) for configuration in configurations]
    second = [run(*configuration) for configuration in reversed(configurations)]
    check(first == second[::-1], 're-seeding changes rewards / terminations')
    # the trajectories do exercise terminations and bumps
    check(any(done for trace in first for _, done, _ in trace), 'no termination')
    check(
        any(reward < -0.25 for trace in first for reward, _, _ in trace),
        'no penalty',
    )


def main():
    hand_written()
    border_wraparound()
    exhaustive_small_grids()
    trajectories()
    print(f'OK ({n_checks} checks)')


if __name__ == '__main__':
    main()
