"""Demo for change B (representations: shared, hoisted grid conversion).

Checks the numeric half of property C04 (the outer environment exposes exactly
the representations of the inner state and observation, observations are never
stale and repeated reads consume no randomness) against a reference
implementation of the three shipped representations embedded in this file, on
a broad set of GridWorld configurations and on hand-built awkward grids
(non-square, agents in corners and on borders with all four headings,
asymmetric view areas sticking out of the grid, colour NONE, boxes).

Runs (and exits 0) both on the pristine tree and with the change applied.
"""
import os
import sys

sys.path.insert(0, os.getcwd())

import warnings

warnings.simplefilter('ignore')

import numpy as np

from gym_gridverse.action import Action
from gym_gridverse.debugging import reset_gv_debug
from gym_gridverse.envs import observation_functions as obf
from gym_gridverse.envs import reset_functions as rsf
from gym_gridverse.envs import reward_functions as rwf
from gym_gridverse.envs import terminating_functions as tmf
from gym_gridverse.envs import transition_functions as trf
from gym_gridverse.envs.gridworld import GridWorld
from gym_gridverse.envs.inner_env import InnerEnv
from gym_gridverse.geometry import Area, Shape
from gym_gridverse.grid_object import (
    Beacon,
    Color,
    Door,
    Exit,
    Floor,
    Key,
    MovingObstacle,
    Telepod,
    Wall,
)
from gym_gridverse.observation import Observation
from gym_gridverse.outer_env import OuterEnv
from gym_gridverse.representations.observation_representations import (
    make_observation_representation,
)
from gym_gridverse.representations.state_representations import (
    make_state_representation,
)
from gym_gridverse.spaces import ActionSpace, ObservationSpace, StateSpace
from gym_gridverse.state import State

reset_gv_debug(True)

ALL_COLORS = [Color.NONE, Color.RED, Color.GREEN, Color.BLUE, Color.YELLOW]


def make_env(
    reset,
    shape,
    objects,
    space_colors,
    area,
    observation,
    transitions,
    actions=None,
    terminating='reach_exit',
    **reset_kwargs,
):
    shape = Shape(*shape)
    area = Area(*area)
    state_space = StateSpace(shape, objects, space_colors)
    observation_space = ObservationSpace(
        Shape(area.height, area.width), objects, space_colors
    )
    action_space = ActionSpace(list(Action) if actions is None else actions)
    return GridWorld(
        state_space,
        action_space,
        observation_space,
        rsf.factory(reset, shape=shape, **reset_kwargs),
        trf.factory(
            'chain',
            transition_functions=[trf.factory(name) for name in transitions],
        ),
        obf.factory(observation, area=area),
        rwf.factory(
            'reduce_sum',
            reward_functions=[
                rwf.factory('reach_exit', reward_on=5.0, reward_off=0.0),
                rwf.factory('living_reward', reward=-0.05),
                rwf.factory('bump_into_wall', reward=-1.0),
            ],
        ),
        tmf.factory(terminating),
    )


MOVES = [
    Action.MOVE_FORWARD,
    Action.MOVE_BACKWARD,
    Action.MOVE_LEFT,
    Action.MOVE_RIGHT,
    Action.TURN_LEFT,
    Action.TURN_RIGHT,
]

# (label, factory);  non-square grids, asymmetric view areas, 1-wide and
# 1-high views, views larger than the grid, stochastic observations, stochastic
# transitions, every shipped reset function
CONFIGS = [
    (
        'empty-4x4-det',
        lambda: make_env(
            'empty',
            (4, 4),
            [Wall, Floor, Exit],
            [Color.NONE],
            ((-6, 0), (-3, 3)),
            'partially_occluded',
            ['move_agent', 'turn_agent'],
            actions=MOVES,
        ),
    ),
    (
        'empty-4x9-random-sray',
        lambda: make_env(
            'empty',
            (4, 9),
            [Wall, Floor, Exit],
            [Color.NONE],
            ((-2, 1), (-1, 3)),
            'stochastic_raytracing',
            ['move_agent', 'turn_agent'],
            random_agent=True,
            random_exit=True,
        ),
    ),
    (
        'empty-8x5-view1x1',
        lambda: make_env(
            'empty',
            (8, 5),
            [Wall, Floor, Exit],
            [Color.NONE],
            ((0, 0), (0, 0)),
            'fully_transparent',
            ['move_agent', 'turn_agent'],
            random_agent=True,
        ),
    ),
    (
        'rooms-7x10',
        lambda: make_env(
            'rooms',
            (7, 10),
            [Wall, Floor, Exit],
            [Color.NONE],
            ((-3, 0), (-2, 2)),
            'raytracing',
            ['move_agent', 'turn_agent'],
            layout=(2, 2),
        ),
    ),
    (
        'dynamic-obstacles-6x7',
        lambda: make_env(
            'dynamic_obstacles',
            (6, 7),
            [Wall, Floor, Exit, MovingObstacle],
            [Color.NONE],
            ((-6, 0), (-3, 3)),
            'stochastic_raytracing',
            ['move_agent', 'turn_agent', 'move_obstacles'],
            actions=MOVES,
            terminating='bump_moving_obstacle',
            num_obstacles=3,
            random_agent=True,
        ),
    ),
    (
        'keydoor-5x8',
        lambda: make_env(
            'keydoor',
            (5, 8),
            [Wall, Floor, Exit, Door, Key],
            [Color.NONE, Color.YELLOW],
            ((-4, 0), (-1, 3)),
            'stochastic_raytracing',
            ['move_agent', 'turn_agent', 'actuate_door', 'pickndrop'],
        ),
    ),
    (
        'keydoor-7x7-tall-view',
        lambda: make_env(
            'keydoor',
            (7, 7),
            [Wall, Floor, Exit, Door, Key],
            [Color.NONE, Color.YELLOW],
            ((-6, 2), (0, 0)),
            'raytracing',
            ['move_agent', 'turn_agent', 'actuate_door', 'pickndrop'],
        ),
    ),
    (
        'crossing-7x9',
        lambda: make_env(
            'crossing',
            (7, 9),
            [Wall, Floor, Exit],
            [Color.NONE],
            ((-6, 0), (-3, 3)),
            'partially_occluded',
            ['move_agent', 'turn_agent'],
            num_rivers=2,
            object_type=Wall,
        ),
    ),
    (
        'teleport-5x6',
        lambda: make_env(
            'teleport',
            (5, 6),
            [Wall, Floor, Exit, Telepod],
            ALL_COLORS,
            ((-1, 1), (-1, 1)),
            'stochastic_raytracing',
            ['move_agent', 'turn_agent', 'teleport'],
        ),
    ),
    (
        'memory-6x5',
        lambda: make_env(
            'memory',
            (6, 5),
            [Wall, Floor, Exit, Beacon],
            ALL_COLORS,
            ((-6, 0), (-3, 3)),
            'raytracing',
            ['move_agent', 'turn_agent'],
            colors={Color.RED, Color.GREEN},
        ),
    ),
    (
        'memory-rooms-7x10',
        lambda: make_env(
            'memory_rooms',
            (7, 10),
            [Wall, Floor, Exit, Beacon],
            ALL_COLORS,
            ((-2, 0), (-4, 4)),
            'stochastic_raytracing',
            ['move_agent', 'turn_agent'],
            layout=(2, 2),
            colors={Color.RED, Color.GREEN, Color.BLUE, Color.YELLOW},
            num_beacons=1,
            num_exits=2,
        ),
    ),
]


class Reference:
    """Reference implementation of the stateful interface, embedded here.

    Threads states through the functional interface explicitly;  the
    observation of a state is generated at the first read only.
    """

    def __init__(self, env: InnerEnv):
        self.env = env
        self.current = None
        self.memo = None

    def reset(self):
        self.current = self.env.functional_reset()
        self.memo = None

    def step(self, action):
        if self.current is None:
            raise RuntimeError
        next_state, reward, done = self.env.functional_step(
            self.current, action
        )
        self.current = next_state
        self.memo = None
        return reward, done

    @property
    def state(self):
        if self.current is None:
            raise RuntimeError
        return self.current

    @property
    def observation(self):
        if self.memo is None:
            self.memo = self.env.functional_observation(self.state)
        return self.memo


from gym_gridverse.agent import Agent
from gym_gridverse.geometry import Orientation, Position
from gym_gridverse.grid import Grid
from gym_gridverse.grid_object import Box, Hidden, NoneGridObject
from gym_gridverse.representations.representation import (
    ArrayRepresentation,
)
from gym_gridverse.representations.observation_representations import (
    CompactGridObjectObservationRepresentation,
    DefaultGridObjectObservationRepresentation,
    GridObservationRepresentation,
    NoOverlapGridObjectObservationRepresentation,
)
from gym_gridverse.representations.state_representations import (
    CompactGridObjectStateRepresentation,
    DefaultGridObjectStateRepresentation,
    GridStateRepresentation,
    NoOverlapGridObjectStateRepresentation,
)

num_checks = 0


def check(condition, message):
    global num_checks
    num_checks += 1
    if not condition:
        print('FAIL:', message)
        sys.exit(1)


def raises(error_type, f):
    try:
        f()
    except error_type:
        return True
    return False


def rng_fingerprint(env):
    # consumes nothing
    return repr(env._rng.bit_generator.state)


# reference implementation of the shipped representations ------------------


def ref_object(name, types, colors, obj):
    """3 channels of one grid-object;  `types` / `colors` are those of the
    representation (space types plus the implicit ones)"""
    t, s, c = obj.type_index(), obj.state_index, obj.color.value
    if name == 'default':
        return [t, s, c]

    max_type = max(x.type_index() for x in types)
    max_state = max(x.num_states() for x in types)
    if name == 'no-overlap':
        return [t, max_type + s + 1, max_type + max_state + c + 2]

    assert name == 'compact'
    ordered = sorted(types, key=lambda x: x.type_index())
    index = 0
    type_map = {}
    for x in ordered:
        type_map[x.type_index()] = index
        index += 1
    state_map = {}
    for x in ordered:
        for j in range(x.num_states()):
            state_map[x.type_index(), j] = index
            index += 1
    color_map = {}
    for color in sorted(colors, key=lambda x: x.value):
        color_map[color.value] = index
        index += 1
    return [type_map[t], state_map[t, s], color_map[c]]


def ref_grid(name, types, colors, grid):
    height, width = len(grid.objects), len(grid.objects[0])
    out = np.zeros((height, width, 3), dtype=int)
    for y, row in enumerate(grid.objects):
        for x, obj in enumerate(row):
            out[y, x, :] = ref_object(name, types, colors, obj)
    return out


def ref_agent_id_grid(grid, agent):
    out = np.zeros((len(grid.objects), len(grid.objects[0])), dtype=int)
    out[agent.position.y, agent.position.x] = 1
    return out


def ref_state(name, state_space, state):
    types = set(state_space.object_types) | {NoneGridObject}
    colors = set(state_space.colors)
    height, width = state.grid.shape.height, state.grid.shape.width
    agent = np.zeros(6)
    agent[0] = (2 * state.agent.position.y - height + 1) / (height - 1)
    agent[1] = (2 * state.agent.position.x - width + 1) / (width - 1)
    agent[2 + state.agent.orientation.value] = 1
    return {
        'grid': ref_grid(name, types, colors, state.grid),
        'agent_id_grid': ref_agent_id_grid(state.grid, state.agent),
        'agent': agent,
        'item': np.array(
            ref_object(name, types, colors, state.agent.grid_object)
        ),
    }


def ref_observation(name, observation_space, observation):
    types = set(observation_space.object_types) | {Hidden, NoneGridObject}
    colors = set(observation_space.colors)
    return {
        'grid': ref_grid(name, types, colors, observation.grid),
        'agent_id_grid': ref_agent_id_grid(
            observation.grid, observation.agent
        ),
        'item': np.array(
            ref_object(name, types, colors, observation.agent.grid_object)
        ),
    }


def same(a, b):
    return list(a.keys()) == list(b.keys()) and all(
        a[k].dtype == b[k].dtype
        and a[k].shape == b[k].shape
        and np.array_equal(a[k], b[k])
        for k in a.keys()
    )


NAMES = ['default', 'no-overlap', 'compact']


def run_outer(label, factory, seed, num_steps):
    for name in NAMES:
        inner = factory()
        functional = factory()
        reference = Reference(functional)
        outer = OuterEnv(
            inner,
            state_representation=make_state_representation(
                name, inner.state_space
            ),
            observation_representation=make_observation_representation(
                name, inner.observation_space
            ),
        )
        check(raises(RuntimeError, lambda: outer.state), f'{label} pre state')
        check(
            raises(RuntimeError, lambda: outer.observation),
            f'{label} pre observation',
        )

        inner.set_seed(seed)
        functional.set_seed(seed)
        outer.reset()
        reference.reset()

        pattern_rng = np.random.default_rng(seed + 1)
        actions = outer.action_space.actions
        for t in range(num_steps):
            for _ in range(int(pattern_rng.integers(0, 3))):
                before = None
                if inner._observation is not None:
                    before = rng_fingerprint(inner)
                o = outer.observation
                check(
                    same(
                        o,
                        ref_observation(
                            name,
                            functional.observation_space,
                            reference.observation,
                        ),
                    ),
                    f'{label}/{name} observation at {t}',
                )
                check(
                    outer.observation_representation.space.keys() == o.keys()
                    and all(
                        outer.observation_representation.space[k].contains(
                            o[k]
                        )
                        for k in o
                    ),
                    f'{label}/{name} observation outside its space at {t}',
                )
                if before is not None:
                    check(
                        rng_fingerprint(inner) == before,
                        f'{label}/{name} repeated read consumed randomness',
                    )
                check(
                    rng_fingerprint(inner) == rng_fingerprint(functional),
                    f'{label}/{name} rng at {t}',
                )
            for _ in range(int(pattern_rng.integers(0, 3))):
                s = outer.state
                check(
                    same(
                        s,
                        ref_state(
                            name, functional.state_space, reference.state
                        ),
                    ),
                    f'{label}/{name} state at {t}',
                )
                check(
                    all(
                        outer.state_representation.space[k].contains(s[k])
                        for k in s
                    ),
                    f'{label}/{name} state outside its space at {t}',
                )
                # fresh arrays:  callers may scribble on what they get
                s['grid'][...] = -7
                check(
                    same(
                        outer.state,
                        ref_state(
                            name, functional.state_space, reference.state
                        ),
                    ),
                    f'{label}/{name} state aliasing at {t}',
                )

            if pattern_rng.integers(0, 10) == 0:
                outer.reset()
                reference.reset()
            else:
                action = actions[int(pattern_rng.integers(0, len(actions)))]
                check(
                    outer.step(action) == reference.step(action),
                    f'{label}/{name} step at {t}',
                )
            check(
                rng_fingerprint(inner) == rng_fingerprint(functional),
                f'{label}/{name} rng after transition {t}',
            )

    # a missing representation raises, without generating the observation
    inner = factory()
    outer = OuterEnv(inner)
    inner.set_seed(seed)
    outer.reset()
    before = rng_fingerprint(inner)
    check(raises(RuntimeError, lambda: outer.state), f'{label} no state repr')
    check(
        raises(RuntimeError, lambda: outer.observation),
        f'{label} no observation repr',
    )
    check(rng_fingerprint(inner) == before, f'{label} no repr consumed rng')
    check(inner._observation is None, f'{label} no repr generated observation')


# hand-built awkward inputs --------------------------------------------------


def run_handbuilt():
    objects = [Wall, Floor, Exit, Door, Key, MovingObstacle, Beacon, Telepod]

    def make_grid(height, width, rng):
        cells = []
        for _ in range(height):
            row = []
            for _ in range(width):
                k = int(rng.integers(0, 9))
                color = ALL_COLORS[int(rng.integers(0, len(ALL_COLORS)))]
                if k == 0:
                    row.append(Wall())
                elif k == 1:
                    row.append(Exit())
                elif k == 2:
                    row.append(
                        Door(
                            list(Door.Status)[int(rng.integers(0, 3))], color
                        )
                    )
                elif k == 3:
                    row.append(Key(color))
                elif k == 4:
                    row.append(MovingObstacle())
                elif k == 5:
                    row.append(Beacon(color))
                elif k == 6:
                    row.append(Telepod(color))
                else:
                    row.append(Floor())
            cells.append(row)
        return Grid(cells)

    rng = np.random.default_rng(99)
    areas = [
        ((-6, 0), (-3, 3)),
        ((-2, 1), (-1, 3)),
        ((0, 0), (0, 0)),
        ((-3, 2), (0, 0)),
        ((-1, 0), (-4, 4)),
        ((0, 3), (-2, 0)),
    ]
    for height, width in [(2, 2), (2, 7), (6, 2), (3, 5), (5, 4)]:
        state_space = StateSpace(Shape(height, width), objects, ALL_COLORS)
        state_representations = {
            name: make_state_representation(name, state_space)
            for name in NAMES
        }
        for area_spec in areas:
            area = Area(*area_spec)
            observation_space = ObservationSpace(
                Shape(area.height, area.width), objects, ALL_COLORS
            )
            observation_representations = {
                name: make_observation_representation(name, observation_space)
                for name in NAMES
            }
            observe = obf.factory('fully_transparent', area=area)
            grid = make_grid(height, width, rng)
            positions = [
                (0, 0),
                (0, width - 1),
                (height - 1, 0),
                (height - 1, width - 1),
                (height // 2, width // 2),
                (0, width // 2),
                (height // 2, 0),
            ]
            for y, x in positions:
                for orientation in Orientation:
                    for item in [None, Key(Color.NONE), Key(Color.BLUE)]:
                        state = State(
                            grid, Agent(Position(y, x), orientation, item)
                        )
                        check(state_space.contains(state), 'hand-built state')
                        observation = observe(state)
                        check(
                            observation_space.contains(observation),
                            'hand-built observation',
                        )
                        for name in NAMES:
                            check(
                                same(
                                    state_representations[name].convert(
                                        state
                                    ),
                                    ref_state(name, state_space, state),
                                ),
                                f'hand-built state {name} {height}x{width} '
                                f'{(y, x)} {orientation}',
                            )
                            check(
                                same(
                                    observation_representations[name].convert(
                                        observation
                                    ),
                                    ref_observation(
                                        name, observation_space, observation
                                    ),
                                ),
                                f'hand-built observation {name} '
                                f'{height}x{width} {area_spec} {(y, x)} '
                                f'{orientation}',
                            )

    # boxes are fine in observations, and rejected in state representations
    observation_space = ObservationSpace(
        Shape(2, 3), [Floor, Box, Key], ALL_COLORS
    )
    observation = Observation(
        Grid(
            [
                [Box(Key(Color.RED)), Hidden(), Floor()],
                [Floor(), Floor(), Box(Floor())],
            ]
        ),
        Agent(Position(1, 1), Orientation.F),
    )
    for name in NAMES:
        check(
            same(
                make_observation_representation(
                    name, observation_space
                ).convert(observation),
                ref_observation(name, observation_space, observation),
            ),
            f'box observation {name}',
        )
        check(
            raises(
                ValueError,
                lambda: make_state_representation(
                    name, StateSpace(Shape(2, 3), [Floor, Box], ALL_COLORS)
                ),
            ),
            f'box state {name}',
        )

    # custom grid-object representation with another number of channels, and
    # a stateful one (conversion order is row-major, one call per cell)
    class OneChannel(ArrayRepresentation):
        def __init__(self):
            self.calls = []

        def convert(self, obj):
            self.calls.append(obj)
            return np.array([len(self.calls)])

    one_channel = OneChannel()
    grid = Grid([[Floor(), Wall(), Exit()], [Key(Color.RED), Floor(), Wall()]])
    array = GridObservationRepresentation(
        observation_space, one_channel
    ).convert(Observation(grid, Agent(Position(1, 1), Orientation.F)))
    check(
        array.dtype == np.dtype(int)
        and array.tolist() == [[[1], [2], [3]], [[4], [5], [6]]],
        'custom representation (observation)',
    )
    check(
        all(
            a is b
            for a, b in zip(
                one_channel.calls, [o for row in grid.objects for o in row]
            )
        )
        and len(one_channel.calls) == 6,
        'custom representation call order (observation)',
    )
    one_channel = OneChannel()
    array = GridStateRepresentation(
        StateSpace(Shape(2, 3), [Floor, Wall, Exit, Key], ALL_COLORS),
        one_channel,
    ).convert(State(grid, Agent(Position(1, 1), Orientation.F)))
    check(
        array.dtype == np.dtype(int)
        and array.tolist() == [[[1], [2], [3]], [[4], [5], [6]]],
        'custom representation (state)',
    )

    # float channels are truncated to integers, as before
    class Halves(ArrayRepresentation):
        def convert(self, obj):
            return np.array([obj.type_index() + 0.5, -0.5])

    array = GridStateRepresentation(
        StateSpace(Shape(2, 3), [Floor, Wall, Exit, Key], ALL_COLORS),
        Halves(),
    ).convert(State(grid, Agent(Position(1, 1), Orientation.F)))
    check(
        array.dtype == np.dtype(int)
        and array.tolist()
        == [
            [[o.type_index(), 0] for o in row]
            for row in grid.objects
        ],
        'float channels',
    )


def run_hardcoded():
    """hard-coded expectations (type indices of the shipped objects)"""
    check(
        [
            t.type_index()
            for t in [NoneGridObject, Hidden, Floor, Wall, Exit, Door, Key]
        ]
        == [0, 1, 2, 3, 4, 5, 6],
        'registry order of shipped objects',
    )
    grid = Grid(
        [
            [Wall(), Wall(), Wall(), Wall()],
            [Wall(), Key(Color.YELLOW), Exit(), Wall()],
            [Wall(), Door(Door.Status.LOCKED, Color.YELLOW), Floor(), Wall()],
        ]
    )
    state = State(grid, Agent(Position(2, 2), Orientation.L, Key(Color.NONE)))
    state_space = StateSpace(
        Shape(3, 4), [Wall, Floor, Exit, Door, Key], [Color.YELLOW]
    )
    expected_grid = [
        [[3, 0, 0], [3, 0, 0], [3, 0, 0], [3, 0, 0]],
        [[3, 0, 0], [6, 0, 4], [4, 0, 0], [3, 0, 0]],
        [[3, 0, 0], [5, 2, 4], [2, 0, 0], [3, 0, 0]],
    ]
    array = make_state_representation('default', state_space).convert(state)
    check(array['grid'].tolist() == expected_grid, 'hard-coded state grid')
    check(array['item'].tolist() == [6, 0, 0], 'hard-coded state item')
    check(
        array['agent_id_grid'].tolist()
        == [[0, 0, 0, 0], [0, 0, 0, 0], [0, 0, 1, 0]],
        'hard-coded agent id grid',
    )
    check(
        array['agent'].tolist() == [1.0, 1 / 3, 0.0, 0.0, 1.0, 0.0],
        'hard-coded agent',
    )

    # agent in (2, 2) facing left, 2x3 view in front of it:  sticks out below
    area = Area((-1, 0), (-1, 1))
    observation_space = ObservationSpace(
        Shape(2, 3), [Wall, Floor, Exit, Door, Key], [Color.YELLOW]
    )
    observation = obf.factory('fully_transparent', area=area)(state)
    array = make_observation_representation(
        'default', observation_space
    ).convert(observation)
    check(
        array['grid'].tolist()
        == [
            [[1, 0, 0], [5, 2, 4], [6, 0, 4]],
            [[1, 0, 0], [2, 0, 0], [4, 0, 0]],
        ],
        f'hard-coded observation grid {array["grid"].tolist()}',
    )
    check(
        array['agent_id_grid'].tolist() == [[0, 0, 0], [0, 1, 0]],
        'hard-coded observation agent id grid',
    )
    check(array['item'].tolist() == [6, 0, 0], 'hard-coded observation item')


def main():
    for label, factory in CONFIGS:
        for seed in [0, 987654321]:
            run_outer(f'{label}/seed={seed}', factory, seed, 20)
    run_handbuilt()
    run_hardcoded()
    print(f'OK ({num_checks} checks)')


if __name__ == '__main__':
    main()
