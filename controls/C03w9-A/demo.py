"""Demo for change A (pickndrop clean-up).

Runs identically on the pristine tree and with the patch applied; exits 0 when

* ``GridWorld.functional_step`` agrees, structurally (boxes are compared by
  their nested content, which ``GridObject.__eq__`` ignores), with a reference
  implementation embedded below (the pristine ``pickndrop`` spelled out, run
  inside the same chain of built-in transition functions on a pickled copy);
* the functional interface is pure (input state structurally unchanged, and
  made of the very same python objects as before the call), alias-free (no
  mutable component of the returned state is a component of the input state;
  mutating one afterwards never shows in the other) and history-independent
  (the same question asked again, after unrelated calls on other environments,
  gives the same answer;  copies equal and hash like their original).

Run from the worktree root:  /venv/bin/python _seed/A/demo.py
"""
import copy
import itertools as itt
import os
import pickle
import sys
from functools import partial

# run from the worktree root:  make `import gym_gridverse` pick up the worktree
sys.path.insert(0, os.getcwd())

from gym_gridverse.action import Action
from gym_gridverse.agent import Agent
from gym_gridverse.envs import observation_functions as ofs
from gym_gridverse.envs import reward_functions as rfs
from gym_gridverse.envs import terminating_functions as tfs
from gym_gridverse.envs import transition_functions as trs
from gym_gridverse.envs.gridworld import GridWorld
from gym_gridverse.geometry import Orientation, Position, Shape
from gym_gridverse.grid import Grid
from gym_gridverse.grid_object import (
    Beacon,
    Box,
    Color,
    Door,
    Exit,
    Floor,
    GridObject,
    Hidden,
    Key,
    MovingObstacle,
    NoneGridObject,
    Telepod,
    Wall,
)
from gym_gridverse.rng import make_rng
from gym_gridverse.spaces import ActionSpace, ObservationSpace, StateSpace
from gym_gridverse.state import State

OBJECT_TYPES = [
    Floor,
    Wall,
    Exit,
    Door,
    Key,
    MovingObstacle,
    Box,
    Telepod,
    Beacon,
]
COLORS = list(Color)
ACTIONS = list(Action)


# --------------------------------------------------------------------------
# structural views of states (GridObject.__eq__ ignores Box contents)
# --------------------------------------------------------------------------


def canon_object(obj):
    content = canon_object(obj.content) if isinstance(obj, Box) else None
    return (type(obj).__name__, obj.state_index, obj.color, content)


def canon_grid(grid):
    return (
        grid.shape.as_tuple,
        tuple(tuple(canon_object(obj) for obj in row) for row in grid.objects),
    )


def canon_agent(agent):
    return (
        agent.position.yx,
        agent.orientation,
        canon_object(agent.grid_object),
    )


def canon(state):
    return (canon_grid(state.grid), canon_agent(state.agent))


def object_components(obj):
    yield obj
    if isinstance(obj, Box):
        yield from object_components(obj.content)


def mutable_components(state):
    """every mutable python object a state is made of"""
    components = [state.grid, state.grid.objects]
    for row in state.grid.objects:
        components.append(row)
        for obj in row:
            components.extend(object_components(obj))
    components.append(state.agent)
    components.append(state.agent.transform)
    components.extend(object_components(state.agent.grid_object))
    return components


def identity_view(state):
    return tuple(id(c) for c in mutable_components(state))


def scramble(state):
    """mutates every mutable component of the state in place"""
    for row in state.grid.objects:
        for x, obj in enumerate(row):
            for component in object_components(obj):
                if isinstance(component, Door):
                    component.state = (
                        Door.Status.CLOSED
                        if component.is_open
                        else Door.Status.OPEN
                    )
                    component.color = Color.YELLOW
                elif isinstance(component, (Key, Telepod, Exit, Beacon)):
                    component.color = Color.GREEN
                elif isinstance(component, Box):
                    component.content = Wall()
            row[x] = Wall() if isinstance(obj, Floor) else obj
    state.grid.objects.reverse()
    held = state.agent.grid_object
    if isinstance(held, Key):
        held.color = Color.YELLOW
    state.agent.grid_object = Box(Key(Color.BLUE))
    state.agent.position = Position(0, 0)
    state.agent.orientation = state.agent.orientation * Orientation.B


# --------------------------------------------------------------------------
# reference implementation:  the pristine pickndrop, spelled out
# --------------------------------------------------------------------------


def reference_pickndrop(state, action, *, rng=None):
    if action is not Action.PICK_N_DROP:
        return

    position_front = state.agent.front()

    if not state.grid.area.contains(position_front):
        return

    obj_front = state.grid[position_front]
    can_be_dropped = isinstance(obj_front, Floor) or obj_front.holdable

    if not can_be_dropped:
        return

    state.grid[position_front] = (
        state.agent.grid_object
        if not isinstance(state.agent.grid_object, NoneGridObject)
        and can_be_dropped
        else Floor()
    )

    state.agent.grid_object = (
        obj_front if obj_front.holdable else NoneGridObject()
    )


def chain_of(pickndrop_function):
    return partial(
        trs.chain,
        transition_functions=[
            trs.turn_agent,
            trs.move_agent,
            trs.actuate_door,
            trs.actuate_box,
            pickndrop_function,
            trs.teleport,
            trs.move_obstacles,
        ],
    )


LIBRARY_CHAIN = chain_of(trs.pickndrop)
REFERENCE_CHAIN = chain_of(reference_pickndrop)

REWARD = partial(
    rfs.reduce_sum,
    reward_functions=[
        partial(rfs.living_reward, reward=-0.125),
        partial(rfs.reach_exit, reward_on=8.0, reward_off=0.0),
        partial(rfs.bump_moving_obstacle, reward=-4.0),
        partial(rfs.bump_into_wall, reward=-2.0),
        partial(rfs.actuate_door, reward_open=1.0, reward_close=-1.0),
        partial(
            rfs.pickndrop, object_type=Key, reward_pick=0.5, reward_drop=-0.25
        ),
    ],
)
TERMINATION = partial(
    tfs.reduce_any,
    terminating_functions=[
        tfs.reach_exit,
        tfs.bump_moving_obstacle,
        tfs.bump_into_wall,
    ],
)


def make_env(shape, observation_shape=(3, 3), observation='partially_occluded'):
    shape = Shape(*shape)
    observation_space = ObservationSpace(
        Shape(*observation_shape), OBJECT_TYPES, COLORS
    )
    return GridWorld(
        StateSpace(shape, OBJECT_TYPES, COLORS),
        ActionSpace(ACTIONS),
        observation_space,
        reset_function=None,
        transition_function=LIBRARY_CHAIN,
        observation_function=partial(
            ofs.observation_function_registry[observation],
            area=observation_space.area,
        ),
        reward_function=REWARD,
        termination_function=TERMINATION,
    )


def reference_step(state, action, seed):
    next_state = pickle.loads(pickle.dumps(state))
    REFERENCE_CHAIN(next_state, action, rng=make_rng(seed))
    reward = REWARD(state, action, next_state)
    terminal = TERMINATION(state, action, next_state)
    return next_state, reward, terminal


# --------------------------------------------------------------------------
# scenarios
# --------------------------------------------------------------------------

FRONT_OBJECTS = [
    Floor,
    Wall,
    Exit,
    lambda: Exit(Color.BLUE),
    lambda: Door(Door.Status.OPEN, Color.RED),
    lambda: Door(Door.Status.CLOSED, Color.NONE),
    lambda: Door(Door.Status.LOCKED, Color.RED),
    lambda: Door(Door.Status.LOCKED, Color.BLUE),
    lambda: Key(Color.RED),
    lambda: Key(Color.NONE),
    MovingObstacle,
    lambda: Box(Key(Color.RED)),
    lambda: Box(Box(Door(Door.Status.LOCKED, Color.GREEN))),
    lambda: Box(Floor()),
    lambda: Telepod(Color.YELLOW),
    lambda: Beacon(Color.GREEN),
]

HELD_OBJECTS = [
    lambda: None,
    lambda: Key(Color.RED),
    lambda: Key(Color.NONE),
    lambda: Key(Color.BLUE),
]

SHAPES = [(1, 1), (1, 3), (3, 1), (2, 3), (4, 3), (3, 5)]

# the rest of the grid:  a fixed mixture laid out cyclically
FILLERS = [
    Floor,
    lambda: Key(Color.GREEN),
    Floor,
    lambda: Telepod(Color.YELLOW),
    Wall,
    lambda: Door(Door.Status.CLOSED, Color.BLUE),
    MovingObstacle,
    Floor,
    lambda: Box(Key(Color.YELLOW)),
    lambda: Telepod(Color.YELLOW),
    Floor,
]


def make_state(shape, position, orientation, held, front):
    height, width = shape
    fillers = itt.cycle(FILLERS)
    grid = Grid([[next(fillers)() for _ in range(width)] for _ in range(height)])
    # the agent stands on something walkable
    if grid[position].blocks_movement:
        grid[position] = Floor()
    agent = Agent(position, orientation, held())
    if grid.area.contains(agent.front()):
        grid[agent.front()] = front()
    return State(grid, agent)


failures = []
counts = {'steps': 0}


def check(condition, *context):
    if not condition:
        failures.append(context)
        if len(failures) > 20:
            report()


def report():
    for failure in failures:
        print('FAIL', *failure)
    print(f'{len(failures)} failures after {counts["steps"]} steps')
    sys.exit(1)


def check_step(env, other_env, other_state, state, action, seed):
    counts['steps'] += 1
    context = (canon(state), action, seed)

    snapshot = canon(state)
    identities = identity_view(state)
    state_hash = hash(state)

    env.set_seed(seed)
    next_state, reward, terminal = env.functional_step(state, action)

    # purity:  same structure, made of the same python objects
    check(canon(state) == snapshot, 'input state modified', *context)
    check(identity_view(state) == identities, 'input state rewired', *context)
    check(hash(state) == state_hash, 'input state hash changed', *context)

    # alias-freeness
    shared = set(identity_view(state)) & set(identity_view(next_state))
    check(not shared, 'next state shares components', *context)

    # agreement with the reference implementation
    ref_next_state, ref_reward, ref_terminal = reference_step(
        state, action, seed
    )
    check(canon(next_state) == canon(ref_next_state), 'next state', *context)
    check(next_state == ref_next_state, 'next state (==)', *context)
    check(hash(next_state) == hash(ref_next_state), 'next hash', *context)
    check(
        reward == ref_reward and type(reward) is type(ref_reward),
        'reward',
        reward,
        ref_reward,
        *context,
    )
    check(terminal is ref_terminal, 'terminal', *context)

    # the functional reward / termination questions are pure too
    check(REWARD(state, action, next_state) == reward, 'reward again')
    check(TERMINATION(state, action, next_state) is terminal, 'terminal again')
    check(canon(state) == snapshot, 'reward modified state', *context)
    check(canon(next_state) == canon(ref_next_state), 'reward modified next')

    # history independence:  unrelated calls in between, then ask again
    if counts['steps'] % 4 == 0:
        other_env.set_seed(seed + 1)
        other_env.functional_step(other_state, action)
        other_env.functional_observation(other_state)
    observation = env.functional_observation(state)
    check(canon(state) == snapshot, 'observation modified state', *context)
    env.set_seed(seed)
    again_state, again_reward, again_terminal = env.functional_step(
        state, action
    )
    check(canon(again_state) == canon(next_state), 'not repeatable', *context)
    check(again_reward == reward and again_terminal is terminal, 'r/t repeat')
    observation_again = env.functional_observation(state)
    check(
        canon_grid(observation.grid) == canon_grid(observation_again.grid)
        and canon_agent(observation.agent)
        == canon_agent(observation_again.agent),
        'observation not repeatable',
        *context,
    )

    # copies equal and hash like the original
    for duplicate in (copy.deepcopy(state), pickle.loads(pickle.dumps(state))):
        check(duplicate == state, 'copy differs', *context)
        check(hash(duplicate) == hash(state), 'copy hash differs', *context)
        check(canon(duplicate) == snapshot, 'copy structure differs', *context)

    # changing either state afterwards cannot affect the other
    next_snapshot = canon(next_state)
    scramble(next_state)
    check(canon(state) == snapshot, 'next state leaks into state', *context)
    scramble(again_state)
    check(canon(state) == snapshot, 'next state leaks into state', *context)
    return next_snapshot


def check_reverse_leak(env, state, action, seed):
    """mutating the input afterwards does not show in the output"""
    env.set_seed(seed)
    next_state, _, _ = env.functional_step(state, action)
    next_snapshot = canon(next_state)
    scramble(state)
    check(
        canon(next_state) == next_snapshot,
        'state leaks into next state',
        next_snapshot,
        action,
    )


def exhaustive():
    envs = {shape: make_env(shape) for shape in SHAPES}
    other_env = make_env((2, 4), (5, 3), 'raytracing')
    other_state = make_state(
        (2, 4), Position(1, 3), Orientation.L, HELD_OBJECTS[1], FRONT_OBJECTS[8]
    )

    seed = 0
    for shape in SHAPES:
        env = envs[shape]
        height, width = shape
        for y, x, orientation in itt.product(
            range(height), range(width), Orientation
        ):
            position = Position(y, x)
            for held, front in itt.product(HELD_OBJECTS, FRONT_OBJECTS):
                # every action on the whole palette would be slow;  all
                # actions for a rotating fifth of it, PICK_N_DROP for all of it
                seed += 1
                for action in ACTIONS:
                    if action is not Action.PICK_N_DROP and seed % 5:
                        continue
                    state = make_state(shape, position, orientation, held, front)
                    check_step(env, other_env, other_state, state, action, seed)
                    state = make_state(shape, position, orientation, held, front)
                    check_reverse_leak(env, state, action, seed)


# --------------------------------------------------------------------------
# hand-written expectations for the pick-and-drop rule itself
# --------------------------------------------------------------------------


def hand_written():
    env = make_env((2, 3))

    def situation(front, held, orientation=Orientation.R):
        # agent in the bottom-left corner of a 2x3 grid, facing right
        grid = Grid.from_shape((2, 3))
        agent = Agent(Position(1, 0), orientation, held)
        if grid.area.contains(agent.front()):
            grid[agent.front()] = front
        return State(grid, agent)

    def outcome(state):
        next_state, _, _ = env.functional_step(state, Action.PICK_N_DROP)
        front = state.agent.front()
        cell = (
            canon_object(next_state.grid[front])
            if next_state.grid.area.contains(front)
            else None
        )
        return cell, canon_object(next_state.agent.grid_object)

    FLOOR = ('Floor', 0, Color.NONE, None)
    NONE = ('NoneGridObject', 0, Color.NONE, None)
    RED = ('Key', 0, Color.RED, None)
    BLUE = ('Key', 0, Color.BLUE, None)
    WALL = ('Wall', 0, Color.NONE, None)

    # pick up:  a floor is left behind
    check(outcome(situation(Key(Color.RED), None)) == (FLOOR, RED), 'pick')
    # swap
    check(
        outcome(situation(Key(Color.RED), Key(Color.BLUE))) == (BLUE, RED),
        'swap',
    )
    # drop on a floor
    check(outcome(situation(Floor(), Key(Color.BLUE))) == (BLUE, NONE), 'drop')
    # nothing to pick, nothing to drop
    check(outcome(situation(Floor(), None)) == (FLOOR, NONE), 'nothing')
    # cannot drop on a wall, cannot pick a wall
    check(outcome(situation(Wall(), Key(Color.BLUE))) == (WALL, BLUE), 'wall')
    check(outcome(situation(Wall(), None)) == (WALL, NONE), 'wall, empty')
    # a box is not holdable, and keeps its content
    box = ('Box', 0, Color.NONE, RED)
    check(
        outcome(situation(Box(Key(Color.RED)), Key(Color.BLUE))) == (box, BLUE),
        'box',
    )
    # facing out of the grid (left, down) in the corner
    for orientation in (Orientation.L, Orientation.B):
        check(
            outcome(situation(Floor(), Key(Color.BLUE), orientation))
            == (None, BLUE),
            'outside',
        )
    # the dropped object is a copy of the held one, never the held one itself
    held = Key(Color.BLUE)
    state = situation(Floor(), held)
    next_state, _, _ = env.functional_step(state, Action.PICK_N_DROP)
    check(next_state.grid[1, 1] is not held, 'dropped object is aliased')
    check(state.agent.grid_object is held, 'held object replaced')
    check(isinstance(state.grid[1, 1], Floor), 'input grid changed')
    # a fresh floor / a fresh none-object, not shared class-level singletons
    state = situation(Key(Color.RED), None)
    first, _, _ = env.functional_step(state, Action.PICK_N_DROP)
    second, _, _ = env.functional_step(state, Action.PICK_N_DROP)
    check(first.grid[1, 1] is not second.grid[1, 1], 'floor shared')
    state = situation(Floor(), Key(Color.RED))
    first, _, _ = env.functional_step(state, Action.PICK_N_DROP)
    second, _, _ = env.functional_step(state, Action.PICK_N_DROP)
    check(
        first.agent.grid_object is not second.agent.grid_object, 'none shared'
    )

    # the in-place transition function itself moves the very objects around
    held, lying = Key(Color.BLUE), Key(Color.RED)
    state = situation(lying, held)
    trs.pickndrop(state, Action.PICK_N_DROP)
    check(state.grid[1, 1] is held, 'in-place swap (grid)')
    check(state.agent.grid_object is lying, 'in-place swap (agent)')
    for action in ACTIONS:
        if action is not Action.PICK_N_DROP:
            state = situation(Key(Color.RED), Key(Color.BLUE))
            snapshot = canon(state)
            trs.pickndrop(state, action)
            check(canon(state) == snapshot, 'other action', action)

    # illegal content is rejected as before, and leaves nothing half-done
    state = situation(Floor(), None)
    state.agent.grid_object = 'not a grid object'
    try:
        trs.pickndrop(state, Action.PICK_N_DROP)
    except TypeError:
        check(isinstance(state.grid[1, 1], Floor), 'half-done (grid)')
        check(state.agent.grid_object == 'not a grid object', 'half-done')
    else:
        check(False, 'TypeError expected')


def trajectories():
    """long seeded walks in two environments, interleaved, then replayed"""
    env_a, env_b = make_env((4, 3)), make_env((3, 5), (3, 5), 'raytracing')
    start_a = make_state(
        (4, 3), Position(3, 0), Orientation.F, HELD_OBJECTS[0], FRONT_OBJECTS[8]
    )
    start_b = make_state(
        (3, 5), Position(0, 4), Orientation.B, HELD_OBJECTS[3], FRONT_OBJECTS[0]
    )
    rng = make_rng(7)

    def walk(interleave):
        env_a.set_seed(11)
        env_b.set_seed(13)
        state_a, state_b = start_a, start_b
        trace = []
        action_rng = make_rng(5)
        for _ in range(300):
            action = ACTIONS[action_rng.integers(len(ACTIONS))]
            state_a, reward, terminal = env_a.functional_step(state_a, action)
            trace.append((canon(state_a), reward, terminal))
            if interleave:
                for _ in range(rng.integers(3)):
                    state_b, _, _ = env_b.functional_step(
                        state_b, ACTIONS[rng.integers(len(ACTIONS))]
                    )
                    env_b.functional_observation(state_b)
                env_a.functional_observation(start_a)
        return trace

    snapshot_a = canon(start_a)
    first = walk(interleave=False)
    second = walk(interleave=True)
    check(first == second, 'walk depends on history')
    check(canon(start_a) == snapshot_a, 'walk modified its start state')


if __name__ == '__main__':
    hand_written()
    exhaustive()
    trajectories()
    if failures:
        report()
    print(f'OK ({counts["steps"]} checked steps)')
