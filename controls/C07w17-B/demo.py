"""Demo for change B (envs/observation_functions.py: shared helpers).

Exits 0 on the pristine tree and with the patch applied.  Checks

1. every built-in observation function against a reference implementation
   embedded here, which builds the egocentric view cell by cell (no geometry
   operators, no Grid.subgrid, no Grid.__mul__);
2. property C07: rotating the whole world (grid and agent pose together) by any
   quarter turn leaves the observation of every deterministic built-in
   observation function unchanged, for many view areas;
3. the glue: `rng` forwarding, registry read at call time, the state is not
   modified, shape validation, factory / registry contents.
"""
import inspect
import itertools as itt
import os
import sys

sys.path.insert(0, os.getcwd())

import numpy as np  # noqa: E402

from gym_gridverse.agent import Agent  # noqa: E402
from gym_gridverse.envs import observation_functions as of  # noqa: E402
from gym_gridverse.envs import visibility_functions as vf  # noqa: E402
from gym_gridverse.geometry import Area, Orientation, Position  # noqa: E402
from gym_gridverse.grid import Grid  # noqa: E402
from gym_gridverse.grid_object import (  # noqa: E402
    Beacon,
    Box,
    Color,
    Door,
    Exit,
    Floor,
    Hidden,
    Key,
    MovingObstacle,
    Telepod,
    Wall,
)
from gym_gridverse.observation import Observation  # noqa: E402
from gym_gridverse.state import State  # noqa: E402

failures = []


def check(condition, message):
    if not condition:
        failures.append(message)
        print('FAIL', message)


# --------------------------------------------------------------------------
# reference implementation
# --------------------------------------------------------------------------

# agent-frame offset (dy, dx) -> grid-frame offset, for each agent heading
_rotate_offset = {
    Orientation.F: lambda dy, dx: (dy, dx),
    Orientation.B: lambda dy, dx: (-dy, -dx),
    Orientation.R: lambda dy, dx: (dx, -dy),
    Orientation.L: lambda dy, dx: (-dx, dy),
}


def ref_egocentric_objects(state, area):
    height, width = state.grid.shape.height, state.grid.shape.width
    rotate = _rotate_offset[state.agent.orientation]
    rows = []
    for dy in range(area.ymin, area.ymax + 1):
        row = []
        for dx in range(area.xmin, area.xmax + 1):
            oy, ox = rotate(dy, dx)
            y, x = state.agent.position.y + oy, state.agent.position.x + ox
            inside = 0 <= y < height and 0 <= x < width
            row.append(state.grid.objects[y][x] if inside else Hidden())
        rows.append(row)
    return rows


def ref_from_visibility(state, *, area, visibility_function, rng=None):
    grid = Grid(ref_egocentric_objects(state, area))
    position = Position(-area.ymin, -area.xmin)
    visibility = visibility_function(grid, position, rng=rng)
    if visibility.shape != (area.height, area.width):
        raise ValueError('incorrect visibility shape')
    for y in range(area.height):
        for x in range(area.width):
            if not visibility[y, x]:
                grid.objects[y][x] = Hidden()
    return Observation(
        grid, Agent(position, Orientation.F, state.agent.grid_object)
    )


def ref_observe(name, state, area, rng=None):
    return ref_from_visibility(
        state,
        area=area,
        visibility_function=vf.visibility_function_registry[name],
        rng=rng,
    )


_turn_right = {
    Orientation.F: Orientation.R,
    Orientation.R: Orientation.B,
    Orientation.B: Orientation.L,
    Orientation.L: Orientation.F,
}


def rotate_world_clockwise(state):
    """quarter turn of grid and agent pose, written without geometry operators"""
    height, width = state.grid.shape.height, state.grid.shape.width
    objects = [
        [state.grid.objects[height - 1 - x][y] for x in range(height)]
        for y in range(width)
    ]
    position = Position(state.agent.position.x, height - 1 - state.agent.position.y)
    orientation = _turn_right[state.agent.orientation]
    return State(
        Grid(objects), Agent(position, orientation, state.agent.grid_object)
    )


def make_grid(height, width, seed):
    rng = np.random.default_rng(seed)
    colors = list(Color)
    factories = [
        Floor,
        Floor,
        Floor,
        Wall,
        Wall,
        lambda: Exit(),
        lambda: Exit(colors[rng.integers(len(colors))]),
        lambda: Door(Door.Status.OPEN, colors[rng.integers(len(colors))]),
        lambda: Door(Door.Status.CLOSED, Color.NONE),
        lambda: Door(Door.Status.LOCKED, colors[rng.integers(len(colors))]),
        lambda: Key(colors[rng.integers(len(colors))]),
        MovingObstacle,
        lambda: Box(Key(Color.NONE)),
        lambda: Telepod(colors[rng.integers(len(colors))]),
        lambda: Beacon(Color.NONE),
    ]
    return Grid(
        [
            [factories[rng.integers(len(factories))]() for _ in range(width)]
            for _ in range(height)
        ]
    )


view_areas = [
    Area((-6, 0), (-3, 3)),  # default
    Area((0, 0), (0, 0)),  # only the agent cell
    Area((-2, 0), (-1, 1)),
    Area((-3, 0), (-4, 1)),  # asymmetric, agent on the bottom row
    Area((-1, 0), (0, 5)),  # agent in the corner of the view
    Area((-2, 2), (-2, 2)),  # agent in the centre
    Area((-1, 3), (-2, 1)),  # asymmetric, agent inside
    Area((0, 2), (-1, 0)),  # agent on the top row (looks backwards)
    Area((-9, 0), (-8, 8)),  # much larger than the grids
]

deterministic = ['fully_transparent', 'partially_occluded', 'raytracing']


def observe(name, state, area):
    function = of.factory(name, area=area)
    try:
        return 'ok', function(state)
    except NotImplementedError:
        # partially_occluded only supports agents on the bottom row of the view
        return 'not-implemented', None


def agent_positions(height, width):
    ys = sorted({0, height // 2, height - 1})
    xs = sorted({0, width // 2, width - 1})
    return [Position(y, x) for y in ys for x in xs]




def snapshot(state):
    """identity of every object of the state (to detect in-place changes)"""
    return (
        [[id(obj) for obj in row] for row in state.grid.objects],
        state.agent.position,
        state.agent.orientation,
        id(state.agent.grid_object),
    )


# --------------------------------------------------------------------------
# 1. + 2. reference implementation and property C07
# --------------------------------------------------------------------------

n_observations = 0
shapes = [(1, 1), (1, 4), (5, 1), (3, 3), (2, 5), (4, 6), (7, 3)]
for index, (height, width) in enumerate(shapes):
    grid = make_grid(height, width, seed=100 + index)
    for position, orientation, held in itt.product(
        agent_positions(height, width),
        [Orientation.F, Orientation.R, Orientation.B, Orientation.L],
        [None, Key(Color.NONE)],
    ):
        if held is not None and orientation is not Orientation.R:
            continue  # one heading with a held object is plenty
        state = State(grid, Agent(position, orientation, held))
        before = snapshot(state)
        rotated = [state]
        for _ in range(3):
            rotated.append(rotate_world_clockwise(rotated[-1]))

        for name, area in itt.product(deterministic, view_areas):
            status, observation = observe(name, state, area)
            try:
                expected = ref_observe(name, state, area)
                expected_status = 'ok'
            except NotImplementedError:
                expected, expected_status = None, 'not-implemented'

            check(
                status == expected_status and observation == expected,
                f'reference {name} {area} {height}x{width} {position} '
                f'{orientation}',
            )
            if status == 'ok':
                check(
                    observation.agent.grid_object is state.agent.grid_object,
                    f'{name} held object is passed as is',
                )
                # objects which are not hidden are the objects of the state
                state_ids = {id(obj) for row in grid.objects for obj in row}
                hidden = [
                    obj
                    for row in observation.grid.objects
                    for obj in row
                    if id(obj) not in state_ids
                ]
                check(
                    all(type(obj) is Hidden for obj in hidden)
                    and len({id(obj) for obj in hidden}) == len(hidden),
                    f'{name} {area} new objects are distinct Hidden objects',
                )

            for turns, other in enumerate(rotated[1:], start=1):
                other_status, other_observation = observe(name, other, area)
                n_observations += 1
                check(
                    status == other_status
                    and observation == other_observation,
                    f'C07 {name} {area} {height}x{width} {position} '
                    f'{orientation} turns={turns}',
                )

            # direct call (not through the factory), rng given or not
            if status == 'ok':
                function = of.observation_function_registry[name]
                check(
                    function(state, area=area) == observation
                    and function(
                        state, area=area, rng=np.random.default_rng(3)
                    )
                    == observation,
                    f'{name} {area} direct / repeated call',
                )

        check(snapshot(state) == before, 'the state is not modified')


# --------------------------------------------------------------------------
# 3. glue
# --------------------------------------------------------------------------

grid = make_grid(4, 6, seed=7)
state = State(grid, Agent(Position(3, 0), Orientation.R, Key(Color.NONE)))
area = Area((-3, 0), (-2, 1))

# registry contents and signatures
check(
    list(of.observation_function_registry.keys())
    == [
        'from_visibility',
        'fully_transparent',
        'partially_occluded',
        'raytracing',
        'stochastic_raytracing',
    ],
    'observation function registry names',
)
for name in ['fully_transparent', 'partially_occluded', 'raytracing', 'stochastic_raytracing']:
    function = of.observation_function_registry[name]
    check(function is getattr(of, name), f'{name} is the module function')
    parameters = inspect.signature(function).parameters
    check(
        list(parameters) == ['state', 'area', 'rng']
        and parameters['area'].kind is inspect.Parameter.KEYWORD_ONLY
        and parameters['area'].default is inspect.Parameter.empty
        and parameters['rng'].kind is inspect.Parameter.KEYWORD_ONLY
        and parameters['rng'].default is None,
        f'{name} signature',
    )
    try:
        of.factory(name)
    except ValueError:
        pass
    else:
        check(False, f'factory({name}) without area does not raise')
parameters = inspect.signature(of.from_visibility).parameters
check(
    list(parameters) == ['state', 'area', 'visibility_function', 'rng'],
    'from_visibility signature',
)
try:
    of.factory('no_such_function', area=area)
except ValueError:
    pass
else:
    check(False, 'factory with an invalid name does not raise')

# rng forwarding:  the very same generator reaches the visibility function,
# exactly once, together with the egocentric grid and position
calls = []


def spy_visibility(grid, position, *, rng=None):
    calls.append((grid, position, rng))
    visibility = np.ones((grid.shape.height, grid.shape.width), dtype=bool)
    visibility[0, 0] = False
    return visibility


for rng in [None, np.random.default_rng(0)]:
    calls.clear()
    function = of.factory(
        'from_visibility', area=area, visibility_function=spy_visibility
    )
    observation = function(state, rng=rng)
    check(len(calls) == 1, 'visibility function called once')
    check(calls[0][2] is rng, 'rng forwarded as is')
    check(calls[0][1] == Position(3, 2), 'egocentric agent position')
    check(calls[0][0] is observation.grid, 'observation grid is the grid seen')
    check(
        observation
        == ref_from_visibility(
            state, area=area, visibility_function=spy_visibility
        ),
        'from_visibility with a custom visibility function',
    )
    check(type(observation.grid[0, 0]) is Hidden, 'invisible cell is hidden')

# stochastic:  same seed, same observation as the reference, and the
# generator is consumed in the same way
for seed in range(5):
    rng_a, rng_b = np.random.default_rng(seed), np.random.default_rng(seed)
    got = of.stochastic_raytracing(state, area=area, rng=rng_a)
    want = ref_observe('stochastic_raytracing', state, area, rng=rng_b)
    check(got == want, f'stochastic_raytracing seed={seed}')
    check(
        rng_a.bit_generator.state == rng_b.bit_generator.state,
        f'stochastic_raytracing seed={seed} consumes the rng alike',
    )

# visibility functions are looked up in the registry at call time
for name in ['fully_transparent', 'partially_occluded', 'raytracing', 'stochastic_raytracing']:
    original = vf.visibility_function_registry[name]
    function = of.factory(name, area=area)  # built before the replacement
    calls.clear()
    vf.visibility_function_registry[name] = spy_visibility
    try:
        rng = np.random.default_rng(1)
        observation = function(state, rng=rng)
    finally:
        vf.visibility_function_registry[name] = original
    check(
        len(calls) == 1 and calls[0][2] is rng,
        f'{name} reads the visibility registry at call time',
    )
    check(
        observation
        == ref_from_visibility(
            state, area=area, visibility_function=spy_visibility
        ),
        f'{name} with a replaced visibility function',
    )
    calls.clear()
    function(state)
    check(len(calls) == 0, f'{name} registry restored')

# wrong visibility shape is rejected
try:
    of.from_visibility(
        state,
        area=area,
        visibility_function=lambda grid, position, *, rng=None: np.ones(
            (area.width, area.height + 1), dtype=bool
        ),
    )
except ValueError as error:
    check('incorrect visibility shape' in str(error), 'error message')
else:
    check(False, 'wrong visibility shape accepted')

# integer (non-boolean) visibility arrays keep working (truthiness)
observation = of.from_visibility(
    state,
    area=area,
    visibility_function=lambda grid, position, *, rng=None: np.arange(
        area.height * area.width
    ).reshape(area.height, area.width)
    % 3,
)
check(
    [
        [type(obj) is Hidden for obj in row]
        for row in observation.grid.objects
    ]
    == [
        [(y * area.width + x) % 3 == 0 or type(expected_obj) is Hidden
         for x, expected_obj in enumerate(row)]
        for y, row in enumerate(ref_egocentric_objects(state, area))
    ],
    'integer visibility',
)

# hard-coded expectation: 2x3 world, agent in the corner, all four headings
W, F_ = Wall(), Floor()
K = Key(Color.NONE)
small = Grid([[W, F_, K], [F_, F_, W]])
expectations = {
    Orientation.F: [[Hidden, Wall, Floor], [Hidden, Floor, Floor]],
    Orientation.R: [[Floor, Floor, Hidden], [Wall, Floor, Hidden]],
    Orientation.B: [[Hidden, Hidden, Hidden], [Floor, Floor, Hidden]],
    Orientation.L: [[Hidden, Hidden, Hidden], [Hidden, Floor, Wall]],
}
for orientation, expected_types in expectations.items():
    observation = of.fully_transparent(
        State(small, Agent(Position(1, 0), orientation)),
        area=Area((-1, 0), (-1, 1)),
    )
    check(
        [[type(obj) for obj in row] for row in observation.grid.objects]
        == expected_types,
        f'hard-coded view {orientation}',
    )

print(f'rotated observations checked: {n_observations}')
if failures:
    print(f'{len(failures)} failures')
    sys.exit(1)
print('OK')
