"""Demo / check program for refactoring A (C02).

Exercises the stochastic transition functions `move_obstacles` and `teleport`
(gym_gridverse.envs.transition_functions) through the public API and compares
them against an independent re-implementation that works on plain character
grids and only shares numpy's `Generator` with the library.

Checked:
  1. unit level: resulting layout, object identity (obstacles are *moved*, not
     re-created), agent pose, and the exact generator state after the call
     (number and order of random draws), for many random grids and seeds;
  2. `rng=None` falls back to the library-level generator, a given `rng` never
     touches it (nor numpy's / python's global generators);
  3. environment level: twin environments with the same seed produce identical
     states / observations / rewards / terminal flags, sequentially and
     interleaved with other environments, debug flag on and off, and the state
     trajectory equals the one of the independent model;
  4. process level: digests of the trajectories are identical in fresh
     interpreters started with different PYTHONHASHSEED values.

Run as: cd <worktree> && /venv/bin/python -W ignore _seed/A/demo.py
"""
import os
import sys

sys.path.insert(0, os.getcwd())

import copy
import hashlib
import json
import random
import subprocess

import numpy as np
import numpy.random as rnd

import gym_gridverse.rng as gv_rng_module
from gym_gridverse.action import Action
from gym_gridverse.agent import Agent
from gym_gridverse.debugging import reset_gv_debug
from gym_gridverse.envs.transition_functions import (
    factory as transition_factory,
    move_obstacles,
    teleport,
    transition_function_registry,
)
from gym_gridverse.envs.yaml.factory import factory_env_from_data
from gym_gridverse.geometry import Orientation, Position
from gym_gridverse.grid import Grid
from gym_gridverse.grid_object import (
    Color,
    Exit,
    Floor,
    MovingObstacle,
    Telepod,
    Wall,
)
from gym_gridverse.rng import get_gv_rng, reset_gv_rng
from gym_gridverse.state import State

# ---------------------------------------------------------------------------
# conversions between the character model and library objects

TELEPOD_COLORS = {'r': Color.RED, 'g': Color.GREEN, 'b': Color.BLUE}
COLOR_TO_CHAR = {color: char for char, color in TELEPOD_COLORS.items()}
ORIENTATIONS = [Orientation.F, Orientation.R, Orientation.B, Orientation.L]
# deltas in (y, x), indexed like ORIENTATIONS (up, right, down, left)
DELTAS = [(-1, 0), (0, 1), (1, 0), (0, -1)]


def make_object(cell):
    if cell == '#':
        return Wall()
    if cell == '.':
        return Floor()
    if cell == 'E':
        return Exit()
    if cell == 'O':
        return MovingObstacle()
    if cell[0] == 'T':
        return Telepod(TELEPOD_COLORS[cell[1]])
    raise AssertionError(cell)


def make_cell(obj):
    if isinstance(obj, Wall):
        return '#'
    if isinstance(obj, Floor):
        return '.'
    if isinstance(obj, Exit):
        return 'E'
    if isinstance(obj, MovingObstacle):
        return 'O'
    if isinstance(obj, Telepod):
        return 'T' + COLOR_TO_CHAR[obj.color]
    raise AssertionError(obj)


def make_state(cells, agent):
    y, x, o = agent
    grid = Grid([[make_object(cell) for cell in row] for row in cells])
    return State(grid, Agent(Position(y, x), ORIENTATIONS[o]))


def state_cells(state):
    height, width = state.grid.shape.height, state.grid.shape.width
    return [
        [make_cell(state.grid[Position(y, x)]) for x in range(width)]
        for y in range(height)
    ]


def state_agent(state):
    return (
        int(state.agent.position.y),
        int(state.agent.position.x),
        ORIENTATIONS.index(state.agent.orientation),
    )


def rng_state(rng):
    return json.dumps(rng.bit_generator.state, sort_keys=True, default=str)


# ---------------------------------------------------------------------------
# independent model of the two stochastic transition functions


def model_move_obstacles(cells, rng):
    height, width = len(cells), len(cells[0])
    obstacles = [
        (y, x) for y in range(height) for x in range(width) if cells[y][x] == 'O'
    ]
    for y, x in obstacles:
        # up, right, down, left
        candidates = [
            (y + dy, x + dx)
            for dy, dx in DELTAS
            if 0 <= y + dy < height
            and 0 <= x + dx < width
            and cells[y + dy][x + dx] == '.'
        ]
        if len(candidates) == 0:
            continue
        ny, nx = candidates[int(rng.choice(len(candidates)))]
        cells[y][x], cells[ny][nx] = cells[ny][nx], cells[y][x]


def model_teleport(cells, agent, rng):
    height, width = len(cells), len(cells[0])
    y, x, o = agent
    here = cells[y][x]
    if here[0] != 'T':
        return agent
    candidates = [
        (ty, tx)
        for ty in range(height)
        for tx in range(width)
        if (ty, tx) != (y, x) and cells[ty][tx] == here
    ]
    if len(candidates) == 0:
        return agent
    ty, tx = candidates[int(rng.choice(len(candidates)))]
    return (ty, tx, o)


def model_move_agent(cells, agent, action):
    turns = {
        Action.MOVE_FORWARD: 0,
        Action.MOVE_RIGHT: 1,
        Action.MOVE_BACKWARD: 2,
        Action.MOVE_LEFT: 3,
    }
    if action not in turns:
        return agent
    y, x, o = agent
    dy, dx = DELTAS[(o + turns[action]) % 4]
    ny, nx = y + dy, x + dx
    if not (0 <= ny < len(cells) and 0 <= nx < len(cells[0])):
        return agent
    if cells[ny][nx] == '#':
        return agent
    return (ny, nx, o)


def model_turn_agent(agent, action):
    y, x, o = agent
    if action is Action.TURN_LEFT:
        return (y, x, (o + 3) % 4)
    if action is Action.TURN_RIGHT:
        return (y, x, (o + 1) % 4)
    return agent


def model_empty(height, width):
    cells = [
        [
            '#' if y in (0, height - 1) or x in (0, width - 1) else '.'
            for x in range(width)
        ]
        for y in range(height)
    ]
    cells[height - 2][width - 2] = 'E'
    return cells


def model_reset_dynamic_obstacles(height, width, num_obstacles, rng):
    cells = model_empty(height, width)
    agent = (1, 1, 1)
    vacant = [
        (y, x)
        for y in range(height)
        for x in range(width)
        if cells[y][x] == '.' and (y, x) != (1, 1)
    ]
    indices = rng.choice(len(vacant), size=num_obstacles, replace=False)
    for i in indices:
        y, x = vacant[int(i)]
        cells[y][x] = 'O'
    return cells, agent


def model_reset_teleport(height, width, rng):
    cells = model_empty(height, width)
    rng.choice(2)  # first orientation draw (overwritten below)
    vacant = [
        (y, x)
        for y in range(height)
        for x in range(width)
        if cells[y][x] == '.' and (y, x) != (1, 1)
    ]
    indices = rng.choice(len(vacant), size=2, replace=False)
    for i in indices:
        y, x = vacant[int(i)]
        cells[y][x] = 'Tr'
    o = [1, 2][int(rng.choice(2))]
    return cells, (1, 1, o)


# ---------------------------------------------------------------------------
# 1. unit level


def random_cells(pyrandom, height, width, weights):
    kinds = list(weights)
    return [
        [
            pyrandom.choices(kinds, weights=[weights[k] for k in kinds])[0]
            for _ in range(width)
        ]
        for _ in range(height)
    ]


def check_move_obstacles_unit():
    pyrandom = random.Random(20202)
    n = 0
    weight_sets = [
        {'#': 2, '.': 4, 'O': 3, 'E': 1},
        {'#': 1, '.': 1, 'O': 6},  # crowded: many boxed-in obstacles
        {'.': 5, 'O': 2},  # no walls: grid edges matter
        {'#': 5, 'O': 2, 'E': 1},  # no floor at all: no draws at all
        {'.': 1},  # no obstacles
    ]
    for height in range(1, 7):
        for width in range(1, 8):
            for weights in weight_sets:
                for _ in range(4):
                    cells = random_cells(pyrandom, height, width, weights)
                    agent = (
                        pyrandom.randrange(height),
                        pyrandom.randrange(width),
                        pyrandom.randrange(4),
                    )
                    seed = pyrandom.randrange(10 ** 6)
                    action = pyrandom.choice(list(Action))

                    state = make_state(cells, agent)
                    obstacles_before = {
                        id(state.grid[Position(y, x)])
                        for y in range(height)
                        for x in range(width)
                        if cells[y][x] == 'O'
                    }
                    rng = rnd.default_rng(seed)
                    assert move_obstacles(state, action, rng=rng) is None

                    expected = copy.deepcopy(cells)
                    expected_rng = rnd.default_rng(seed)
                    model_move_obstacles(expected, expected_rng)

                    assert state_cells(state) == expected, (cells, seed)
                    assert state_agent(state) == agent
                    assert rng_state(rng) == rng_state(expected_rng), (
                        cells,
                        seed,
                    )
                    obstacles_after = {
                        id(state.grid[Position(y, x)])
                        for y in range(height)
                        for x in range(width)
                        if expected[y][x] == 'O'
                    }
                    assert obstacles_before == obstacles_after
                    n += 1
    return n


def check_teleport_unit():
    pyrandom = random.Random(30303)
    n = 0
    weight_sets = [
        {'#': 1, '.': 4, 'Tr': 2},
        {'#': 1, '.': 3, 'Tr': 2, 'Tg': 2, 'Tb': 1},
        {'.': 6, 'Tr': 1, 'Tg': 1},  # frequently unpaired telepods
        {'Tr': 1},  # everything is a telepod
        {'.': 1, 'E': 1},  # no telepods
    ]
    for height in range(1, 6):
        for width in range(1, 7):
            for weights in weight_sets:
                for _ in range(3):
                    cells = random_cells(pyrandom, height, width, weights)
                    seed = pyrandom.randrange(10 ** 6)
                    action = pyrandom.choice(list(Action))
                    # every agent position
                    for y in range(height):
                        for x in range(width):
                            agent = (y, x, pyrandom.randrange(4))
                            state = make_state(cells, agent)
                            rng = rnd.default_rng(seed)
                            assert teleport(state, action, rng=rng) is None

                            expected_rng = rnd.default_rng(seed)
                            expected_agent = model_teleport(
                                cells, agent, expected_rng
                            )
                            assert state_cells(state) == cells
                            assert state_agent(state) == expected_agent, (
                                cells,
                                agent,
                                seed,
                            )
                            assert isinstance(state.agent.position, Position)
                            assert rng_state(rng) == rng_state(expected_rng)
                            n += 1
    return n


# ---------------------------------------------------------------------------
# 2. library-level generator


def global_fingerprint():
    return (
        rng_state(get_gv_rng()),
        hashlib.sha256(repr(np.random.get_state()).encode()).hexdigest(),
        hashlib.sha256(repr(random.getstate()).encode()).hexdigest(),
    )


def check_global_rng():
    cells = [
        list('#######'),
        ['#', '.', 'O', '.', 'Tr', '.', '#'],
        ['#', 'O', '.', 'O', '.', 'Tr', '#'],
        ['#', '.', 'Tr', '.', 'O', '.', '#'],
        list('#######'),
    ]
    agent = (1, 4, 0)

    # explicit rng: library-level and global generators are left alone
    reset_gv_rng(777)
    before = global_fingerprint()
    library_rng = get_gv_rng()
    for seed in range(50):
        state = make_state(cells, agent)
        rng = rnd.default_rng(seed)
        move_obstacles(state, Action.MOVE_FORWARD, rng=rng)
        teleport(state, Action.MOVE_FORWARD, rng=rng)
    assert get_gv_rng() is library_rng
    assert global_fingerprint() == before

    # rng=None: library-level generator is used, with the same draws
    for seed in range(50):
        reset_gv_rng(seed)
        state = make_state(cells, agent)
        move_obstacles(state, Action.MOVE_FORWARD)
        teleport(state, Action.MOVE_FORWARD)
        teleport(state, Action.MOVE_FORWARD, rng=None)

        expected = copy.deepcopy(cells)
        expected_rng = rnd.default_rng(seed)
        model_move_obstacles(expected, expected_rng)
        expected_agent = model_teleport(expected, agent, expected_rng)
        expected_agent = model_teleport(expected, expected_agent, expected_rng)
        assert state_cells(state) == expected
        assert state_agent(state) == expected_agent
        assert rng_state(get_gv_rng()) == rng_state(expected_rng)

    # registry / factory still expose the same callables
    assert transition_function_registry['move_obstacles'] is move_obstacles
    assert transition_function_registry['teleport'] is teleport
    assert transition_factory('move_obstacles').func is move_obstacles
    assert transition_factory('teleport').func is teleport


# ---------------------------------------------------------------------------
# 3. environment level

ACTIONS = [
    'MOVE_FORWARD',
    'MOVE_BACKWARD',
    'MOVE_LEFT',
    'MOVE_RIGHT',
    'TURN_LEFT',
    'TURN_RIGHT',
]


def config_dynamic_obstacles(height, width, num_obstacles):
    objects = ['Wall', 'Floor', 'Exit', 'MovingObstacle']
    return {
        'state_space': {'objects': objects, 'colors': ['NONE']},
        'action_space': list(ACTIONS),
        'observation_space': {'objects': objects, 'colors': ['NONE']},
        'reset_function': {
            'name': 'dynamic_obstacles',
            'shape': [height, width],
            'num_obstacles': num_obstacles,
            'random_agent': False,
        },
        'transition_functions': [
            {'name': 'move_agent'},
            {'name': 'turn_agent'},
            {'name': 'move_obstacles'},
        ],
        'reward_functions': [
            {'name': 'reach_exit', 'reward_on': 5.0, 'reward_off': 0.0},
            {'name': 'bump_moving_obstacle', 'reward': -1.0},
            {'name': 'bump_into_wall', 'reward': -1.0},
            {
                'name': 'getting_closer',
                'distance_function': 'manhattan',
                'object_type': 'Exit',
                'reward_closer': 0.2,
                'reward_further': -0.2,
            },
            {'name': 'living_reward', 'reward': -0.05},
        ],
        'observation_function': {
            'name': 'partially_occluded',
            'area': [[-6, 0], [-3, 3]],
        },
        'terminating_function': {
            'name': 'reduce_any',
            'terminating_functions': [
                {'name': 'reach_exit'},
                {'name': 'bump_moving_obstacle'},
                {'name': 'bump_into_wall'},
            ],
        },
    }


def config_teleport(height, width, observation_function):
    objects = ['Wall', 'Floor', 'Exit', 'Telepod']
    return {
        'state_space': {'objects': objects, 'colors': ['NONE', 'RED']},
        'action_space': list(ACTIONS),
        'observation_space': {'objects': objects, 'colors': ['NONE', 'RED']},
        'reset_function': {'name': 'teleport', 'shape': [height, width]},
        'transition_functions': [
            {'name': 'move_agent'},
            {'name': 'turn_agent'},
            {'name': 'teleport'},
        ],
        'reward_functions': [
            {'name': 'reach_exit', 'reward_on': 5.0, 'reward_off': 0.0},
            {
                'name': 'getting_closer',
                'distance_function': 'manhattan',
                'object_type': 'Exit',
                'reward_closer': 0.2,
                'reward_further': -0.2,
            },
            {'name': 'living_reward', 'reward': -0.05},
        ],
        'observation_function': observation_function,
        'terminating_function': {'name': 'reach_exit'},
    }


PARTIALLY_OCCLUDED = {'name': 'partially_occluded', 'area': [[-6, 0], [-3, 3]]}
STOCHASTIC_RAYTRACING = {
    'name': 'stochastic_raytracing',
    'area': [[-4, 0], [-2, 2]],
}

# (name, config builder, model reset) triples
ENV_SPECS = [
    (
        'dynamic_obstacles.5x5',
        lambda: config_dynamic_obstacles(5, 5, 1),
        lambda rng: model_reset_dynamic_obstacles(5, 5, 1, rng),
    ),
    (
        'dynamic_obstacles.7x7',
        lambda: config_dynamic_obstacles(7, 7, 2),
        lambda rng: model_reset_dynamic_obstacles(7, 7, 2, rng),
    ),
    (
        'dynamic_obstacles.6x8.crowded',
        lambda: config_dynamic_obstacles(6, 8, 18),
        lambda rng: model_reset_dynamic_obstacles(6, 8, 18, rng),
    ),
    (
        'teleport.5x5',
        lambda: config_teleport(5, 5, dict(PARTIALLY_OCCLUDED)),
        lambda rng: model_reset_teleport(5, 5, rng),
    ),
    (
        'teleport.7x7',
        lambda: config_teleport(7, 7, dict(PARTIALLY_OCCLUDED)),
        lambda rng: model_reset_teleport(7, 7, rng),
    ),
    (
        # stochastic observations: no state model, reproducibility only
        'teleport.6x6.stochastic_raytracing',
        lambda: config_teleport(6, 6, dict(STOCHASTIC_RAYTRACING)),
        None,
    ),
]


def make_env(name):
    for spec_name, make_config, _ in ENV_SPECS:
        if spec_name == name:
            return factory_env_from_data(make_config())
    raise AssertionError(name)


def describe_object(obj):
    return (type(obj).__name__, obj.state_index, obj.color.name)


def describe_observation(observation):
    grid = observation.grid
    return (
        [
            [
                describe_object(grid[Position(y, x)])
                for x in range(grid.shape.width)
            ]
            for y in range(grid.shape.height)
        ],
        (
            int(observation.agent.position.y),
            int(observation.agent.position.x),
            observation.agent.orientation.name,
            describe_object(observation.agent.grid_object),
        ),
    )


def action_sequence(name, seed, length):
    pyrandom = random.Random(f'{name}/{seed}')
    return [Action[pyrandom.choice(ACTIONS)] for _ in range(length)]


class Runner:
    """steps an environment through an episode-restarting action sequence"""

    def __init__(self, name, seed, length):
        self.env = make_env(name)
        self.actions = action_sequence(name, seed, length)
        self.records = []
        self.t = -1
        self.seed = seed

    def done(self):
        return self.t >= len(self.actions)

    def advance(self):
        env = self.env
        if self.t == -1:
            env.set_seed(self.seed)
            env.reset()
            self.record(None, None)
            self.t = 0
            return
        action = self.actions[self.t]
        reward, terminal = env.step(action)
        self.record(reward, terminal)
        if terminal:
            env.reset()
            self.record(None, None)
        self.t += 1

    def record(self, reward, terminal):
        state = self.env.state
        self.records.append(
            (
                state_cells(state),
                state_agent(state),
                describe_observation(self.env.observation),
                reward,
                terminal,
            )
        )


def run_sequential(name, seed, length):
    runner = Runner(name, seed, length)
    while not runner.done():
        runner.advance()
    return runner.records


def run_interleaved(jobs, schedule_seed):
    """runs several runners, interleaving their operations pseudo-randomly"""
    pyrandom = random.Random(schedule_seed)
    runners = [Runner(*job) for job in jobs]
    pending = list(runners)
    while pending:
        runner = pyrandom.choice(pending)
        for _ in range(pyrandom.randrange(1, 4)):
            if not runner.done():
                runner.advance()
        if runner.done():
            pending.remove(runner)
    return [runner.records for runner in runners]


def model_trajectory(name, seed, length):
    """state trajectory according to the independent model"""
    (model_reset,) = [spec[2] for spec in ENV_SPECS if spec[0] == name]
    is_teleport = name.startswith('teleport')
    rng = rnd.default_rng(seed)
    actions = action_sequence(name, seed, length)
    trajectory = []

    cells, agent = model_reset(rng)
    trajectory.append((copy.deepcopy(cells), agent))
    for action in actions:
        previous_cells, previous_agent = cells, agent
        cells = copy.deepcopy(cells)
        agent = model_move_agent(cells, agent, action)
        agent = model_turn_agent(agent, action)
        if is_teleport:
            agent = model_teleport(cells, agent, rng)
        else:
            model_move_obstacles(cells, rng)
        trajectory.append((copy.deepcopy(cells), agent))

        y, x, _ = agent
        terminal = cells[y][x] == 'E'
        if not is_teleport:
            bump_obstacle = cells[y][x] == 'O'
            moved = model_move_agent(previous_cells, previous_agent, action)
            bump_wall = action in (
                Action.MOVE_FORWARD,
                Action.MOVE_BACKWARD,
                Action.MOVE_LEFT,
                Action.MOVE_RIGHT,
            ) and (moved == previous_agent)
            terminal = terminal or bump_obstacle or bump_wall
        if terminal:
            cells, agent = model_reset(rng)
            trajectory.append((copy.deepcopy(cells), agent))
    return trajectory


def digest(data):
    return hashlib.sha256(
        json.dumps(data, sort_keys=True, default=str).encode()
    ).hexdigest()


SEEDS = [0, 1, 2, 3, 17, 2 ** 31 + 5]
LENGTH = 60


def check_environments():
    digests = {}
    for name, _, model_reset in ENV_SPECS:
        for seed in SEEDS:
            reset_gv_debug(True)
            records = run_sequential(name, seed, LENGTH)
            # twin, sequentially
            assert run_sequential(name, seed, LENGTH) == records
            # debug flag off
            reset_gv_debug(False)
            assert run_sequential(name, seed, LENGTH) == records
            reset_gv_debug(True)
            # different seeds give different trajectories (sanity)
            digests[f'{name}/{seed}'] = digest(records)

            if model_reset is not None:
                expected = model_trajectory(name, seed, LENGTH)
                actual = [(cells, agent) for cells, agent, *_ in records]
                assert actual == expected, (name, seed)

    # interleaving several live environments (twins + others)
    names = [name for name, _, _ in ENV_SPECS]
    for schedule_seed in range(4):
        jobs = []
        for name in names:
            for seed in SEEDS[:3]:
                jobs.append((name, seed, LENGTH))
                jobs.append((name, seed, LENGTH))  # twin
        reset_gv_debug(schedule_seed % 2 == 0)
        all_records = run_interleaved(jobs, schedule_seed)
        for job, records in zip(jobs, all_records):
            assert digest(records) == digests[f'{job[0]}/{job[1]}'], job
    reset_gv_debug(True)

    assert len(set(digests.values())) > len(digests) // 2
    return digests


def check_environments_isolated():
    """seeded environments never touch library-level / global generators"""
    reset_gv_rng(4242)
    envs = {name: make_env(name) for name, _, _ in ENV_SPECS}
    # NOTE: env construction (factory) may use the library-level generator;
    # fingerprint is taken after construction
    reset_gv_rng(4242)
    library_rng = get_gv_rng()
    before = global_fingerprint()
    for name, env in envs.items():
        for seed in SEEDS[:3]:
            env.set_seed(seed)
            env.reset()
            for action in action_sequence(name, seed, 40):
                _, terminal = env.step(action)
                env.observation
                if terminal:
                    env.reset()
    assert get_gv_rng() is library_rng
    assert gv_rng_module._gv_rng is library_rng
    assert global_fingerprint() == before


# ---------------------------------------------------------------------------
# 4. process level


def check_processes(digests):
    expected = digest(digests)
    for hashseed in ['0', '1', '4242']:
        env = dict(os.environ)
        env['PYTHONHASHSEED'] = hashseed
        output = subprocess.run(
            [sys.executable, '-W', 'ignore', os.path.abspath(__file__), 'child'],
            env=env,
            stdout=subprocess.PIPE,
            stderr=subprocess.DEVNULL,
            check=True,
            cwd=os.getcwd(),
        ).stdout.decode()
        assert output.strip().splitlines()[-1] == expected, (hashseed, output)


def child_digests():
    digests = {}
    for name, _, _ in ENV_SPECS:
        for seed in SEEDS:
            digests[f'{name}/{seed}'] = digest(
                run_sequential(name, seed, LENGTH)
            )
    return digests


def main():
    if sys.argv[1:] == ['child']:
        print(digest(child_digests()))
        return

    n = check_move_obstacles_unit()
    print(f'move_obstacles unit cases: {n}')
    n = check_teleport_unit()
    print(f'teleport unit cases: {n}')
    check_global_rng()
    print('library-level generator checks: ok')
    digests = check_environments()
    print(f'environment trajectories: {len(digests)}')
    check_environments_isolated()
    print('environment isolation: ok')
    check_processes(digests)
    print('cross-process digests: ok')
    print('OK')


if __name__ == '__main__':
    main()
