"""C12 demo (change A): rewards and termination mean what they say.

Run from the worktree root:  /venv/bin/python _seed/A/demo.py
Exits 0 on the pristine tree and with the change applied.
"""

# ---------------------------------------------------------------------------
# shared part of the demo: reference implementation of property C12 written
# with plain integer arithmetic on (y, x) pairs, plus scenario generators
# ---------------------------------------------------------------------------
import itertools
import math
import os
import random
import sys
import warnings
from collections import deque
from functools import partial

warnings.filterwarnings('ignore')
sys.path.insert(0, os.getcwd())

import numpy as np  # noqa: E402

from gym_gridverse.action import Action  # noqa: E402
from gym_gridverse.agent import Agent  # noqa: E402
from gym_gridverse.envs import reset_functions as resets  # noqa: E402
from gym_gridverse.envs import reward_functions as rew  # noqa: E402
from gym_gridverse.envs import terminating_functions as ter  # noqa: E402
from gym_gridverse.envs import transition_functions as tra  # noqa: E402
from gym_gridverse.envs.gridworld import GridWorld  # noqa: E402
from gym_gridverse.envs.observation_functions import (  # noqa: E402
    partially_occluded,
)
from gym_gridverse.envs.utils import get_next_position  # noqa: E402
from gym_gridverse.geometry import (  # noqa: E402
    Area,
    Orientation,
    Position,
    Shape,
)
from gym_gridverse.grid import Grid  # noqa: E402
from gym_gridverse.grid_object import (  # noqa: E402
    Beacon,
    Color,
    Door,
    Exit,
    Floor,
    Key,
    MovingObstacle,
    Wall,
)
from gym_gridverse.spaces import (  # noqa: E402
    ActionSpace,
    ObservationSpace,
    StateSpace,
)
from gym_gridverse.state import State  # noqa: E402

CHECKS = 0


def check(condition, *info):
    global CHECKS
    CHECKS += 1
    if not condition:
        print('FAILED:', *info)
        sys.exit(1)


def same(a, b):
    """equal value *and* equal kind (an int 0 is not a float 0.0)"""
    return type(a) is type(b) and (a == b or (a != a and b != b))


# --- reference geometry -----------------------------------------------------

# clockwise compass: heading index -> (dy, dx)
COMPASS = [(-1, 0), (0, 1), (1, 0), (0, -1)]
HEADING = {
    Orientation.F: 0,
    Orientation.R: 1,
    Orientation.B: 2,
    Orientation.L: 3,
}
MOVE_TURNS = {
    Action.MOVE_FORWARD: 0,
    Action.MOVE_RIGHT: 1,
    Action.MOVE_BACKWARD: 2,
    Action.MOVE_LEFT: 3,
}


def ref_target(state, action):
    """(y, x) of the cell the action tries to move the agent into"""
    y, x = state.agent.position.y, state.agent.position.x
    if action not in MOVE_TURNS:
        return y, x
    dy, dx = COMPASS[(HEADING[state.agent.orientation] + MOVE_TURNS[action]) % 4]
    return y + dy, x + dx


def ref_inside(state, yx):
    y, x = yx
    return 0 <= y < len(state.grid.objects) and 0 <= x < len(
        state.grid.objects[0]
    )


def ref_cell(state, yx):
    return state.grid.objects[yx[0]][yx[1]]


def ref_agent_cell(state):
    return ref_cell(state, (state.agent.position.y, state.agent.position.x))


def ref_find(state, object_type):
    return [
        (y, x)
        for y, row in enumerate(state.grid.objects)
        for x, obj in enumerate(row)
        if isinstance(obj, object_type)
    ]


def ref_manhattan(p, q):
    return abs(p[0] - q[0]) + abs(p[1] - q[1])


def ref_euclidean(p, q):
    return math.sqrt((p[0] - q[0]) ** 2 + (p[1] - q[1]) ** 2)


def ref_path_length(state, object_type):
    """walking distance agent -> unique object through non-blocking cells"""
    (source,) = ref_find(state, object_type)
    dist = {source: 0.0}
    todo = deque([source])
    while todo:
        cur = todo.popleft()
        for dy, dx in COMPASS:
            new = (cur[0] + dy, cur[1] + dx)
            if (
                ref_inside(state, new)
                and new not in dist
                and not ref_cell(state, new).blocks_movement
            ):
                dist[new] = dist[cur] + 1
                todo.append(new)
    return dist.get(
        (state.agent.position.y, state.agent.position.x), float('inf')
    )


def agent_yx(state):
    return state.agent.position.y, state.agent.position.x


# --- reference rewards / terminations ----------------------------------------


def ref_overlap(s, a, ns, object_type, on, off):
    return on if isinstance(ref_agent_cell(ns), object_type) else off


def ref_bumps_wall(s, a, ns):
    target = ref_target(s, a)
    return ref_inside(s, target) and isinstance(ref_cell(s, target), Wall)


def ref_sign(prev, nxt, closer, further):
    return closer if nxt < prev else further if nxt > prev else 0.0


def ref_getting_closer(s, a, ns, object_type, distance, closer, further):
    (p,) = ref_find(s, object_type)
    (q,) = ref_find(ns, object_type)
    return ref_sign(
        distance(agent_yx(s), p), distance(agent_yx(ns), q), closer, further
    )


def ref_getting_closer_path(s, a, ns, object_type, closer, further):
    return ref_sign(
        ref_path_length(s, object_type),
        ref_path_length(ns, object_type),
        closer,
        further,
    )


def ref_proportional(s, a, ns, object_type, distance, unit):
    (q,) = ref_find(ns, object_type)
    return unit * distance(agent_yx(ns), q)


def ref_actuate_door(s, a, ns, r_open, r_close):
    if a is not Action.ACTUATE:
        return 0.0
    dy, dx = COMPASS[HEADING[s.agent.orientation]]
    front = (s.agent.position.y + dy, s.agent.position.x + dx)
    if not ref_inside(s, front):
        return 0.0
    door, next_door = ref_cell(s, front), ref_cell(ns, front)
    if not isinstance(door, Door) or not isinstance(next_door, Door):
        return 0.0
    was_open = door.state is Door.Status.OPEN
    is_open = next_door.state is Door.Status.OPEN
    return (
        r_open
        if not was_open and is_open
        else r_close
        if was_open and not is_open
        else 0.0
    )


def ref_pickndrop(s, a, ns, object_type, r_pick, r_drop):
    had = isinstance(s.agent.grid_object, object_type)
    has = isinstance(ns.agent.grid_object, object_type)
    return r_pick if not had and has else r_drop if had and not has else 0.0


def ref_memory(s, a, ns, good, bad):
    cell = ref_agent_cell(ns)
    beacons = ref_find(ns, Beacon)
    beacon_color = ref_cell(ns, beacons[0]).color
    if not isinstance(cell, Exit):
        return 0.0
    return good if cell.color is beacon_color else bad


# --- scenario generators -------------------------------------------------------

SHAPES = [
    (1, 1),
    (1, 5),
    (5, 1),
    (2, 2),
    (2, 3),
    (3, 7),
    (7, 4),
    (6, 6),
    (4, 9),
]
ORIENTATIONS = [Orientation.F, Orientation.R, Orientation.B, Orientation.L]
ACTIONS = list(Action)
COLORS = list(Color)


def random_object(rnd):
    kind = rnd.randrange(12)
    if kind < 5:
        return Floor()
    if kind < 8:
        return Wall()
    if kind == 8:
        return Door(rnd.choice(list(Door.Status)), rnd.choice(COLORS))
    if kind == 9:
        return Key(rnd.choice(COLORS))
    if kind == 10:
        return MovingObstacle()
    return Floor()


def random_grid(rnd, shape, *, n_exits=1, n_beacons=1):
    height, width = shape
    objects = [
        [random_object(rnd) for _ in range(width)] for _ in range(height)
    ]
    cells = [(y, x) for y in range(height) for x in range(width)]
    rnd.shuffle(cells)
    for _ in range(min(n_exits, len(cells))):
        y, x = cells.pop()
        objects[y][x] = Exit(rnd.choice(COLORS))
    for _ in range(min(n_beacons, len(cells))):
        y, x = cells.pop()
        objects[y][x] = Beacon(rnd.choice(COLORS))
    return Grid(objects)


def random_agent(rnd, shape):
    height, width = shape
    # borders and corners are over-represented on purpose
    y = rnd.choice([0, height - 1, rnd.randrange(height)])
    x = rnd.choice([0, width - 1, rnd.randrange(width)])
    held = rnd.choice([None, None, Key(rnd.choice(COLORS)), Floor()])
    return Agent(Position(y, x), rnd.choice(ORIENTATIONS), held)


def random_state(rnd, shape, **kwargs):
    return State(random_grid(rnd, shape, **kwargs), random_agent(rnd, shape))


REAL_DYNAMICS = partial(
    tra.chain,
    transition_functions=[
        tra.move_agent,
        tra.turn_agent,
        tra.actuate_door,
        tra.pickndrop,
        tra.move_obstacles,
    ],
)


def triples(rnd, n_per_shape, **kwargs):
    """(state, action, next_state) with real and with arbitrary next states"""
    rng = np.random.default_rng(rnd.randrange(10**6))
    for shape in SHAPES:
        for _ in range(n_per_shape):
            state = random_state(rnd, shape, **kwargs)
            for action in ACTIONS:
                yield state, action, tra.transition_with_copy(
                    REAL_DYNAMICS, state, action, rng=rng
                )
            # arbitrary next state: same grid but teleported agent ...
            action = rnd.choice(ACTIONS)
            yield state, action, State(
                tra.fast_copy(state).grid, random_agent(rnd, shape)
            )
            # ... and a next state with its own random layout
            yield state, action, random_state(rnd, shape, **kwargs)


REWARD_PARAMS = [
    (1.0, -1.0),
    (0.2, -0.2),
    (0.0, 0.0),
    (-3.5, 7.25),
    (1e9, -1e-9),
    (2, -3),  # ints are legal and must come back as ints
]


def check_components(rnd, n_per_shape):
    """every component equals the reference, value and kind, on all triples"""
    n = 0
    for s, a, ns in triples(rnd, n_per_shape):
        n += 1
        p, q = rnd.choice(REWARD_PARAMS)
        info = (s, a, ns, p, q)

        # exit: reward, termination, and their agreement
        on_exit = isinstance(ref_agent_cell(ns), Exit)
        check(same(ter.reach_exit(s, a, ns), on_exit), 'ter.reach_exit', info)
        check(
            same(
                rew.reach_exit(s, a, ns, reward_on=p, reward_off=q),
                p if on_exit else q,
            ),
            'rew.reach_exit',
            info,
        )
        for object_type in (Exit, Wall, MovingObstacle, Door, Floor, Beacon):
            check(
                same(
                    rew.overlap(
                        s, a, ns, object_type=object_type, reward_on=p, reward_off=q
                    ),
                    ref_overlap(s, a, ns, object_type, p, q),
                ),
                'rew.overlap',
                info,
            )
            check(
                same(
                    ter.overlap(s, a, ns, object_type=object_type),
                    ref_overlap(s, a, ns, object_type, True, False),
                ),
                'ter.overlap',
                info,
            )

        # bumping
        bumps = ref_bumps_wall(s, a, ns)
        check(same(ter.bump_into_wall(s, a, ns), bumps), 'ter.bump_wall', info)
        check(
            same(rew.bump_into_wall(s, a, ns, reward=p), p if bumps else 0.0),
            'rew.bump_wall',
            info,
        )
        on_obstacle = isinstance(ref_agent_cell(ns), MovingObstacle)
        check(
            same(ter.bump_moving_obstacle(s, a, ns), on_obstacle),
            'ter.bump_obstacle',
            info,
        )
        check(
            same(
                rew.bump_moving_obstacle(s, a, ns, reward=p),
                p if on_obstacle else 0.0,
            ),
            'rew.bump_obstacle',
            info,
        )

        # distance shaping
        for lib_distance, ref_distance in (
            (Position.manhattan_distance, ref_manhattan),
            (Position.euclidean_distance, ref_euclidean),
        ):
            check(
                same(
                    rew.getting_closer(
                        s,
                        a,
                        ns,
                        distance_function=lib_distance,
                        object_type=Exit,
                        reward_closer=p,
                        reward_further=q,
                    ),
                    ref_getting_closer(s, a, ns, Exit, ref_distance, p, q),
                ),
                'rew.getting_closer',
                info,
            )
            check(
                same(
                    rew.proportional_to_distance(
                        s,
                        a,
                        ns,
                        distance_function=lib_distance,
                        object_type=Exit,
                        reward_per_unit_distance=p,
                    ),
                    ref_proportional(s, a, ns, Exit, ref_distance, p),
                ),
                'rew.proportional_to_distance',
                info,
            )
        # defaults are manhattan, 1.0 / -1.0 / -1.0
        has_beacon = len(ref_find(s, Beacon)) == len(ref_find(ns, Beacon)) == 1
        check(
            not has_beacon
            or same(
                rew.getting_closer(s, a, ns, object_type=Beacon),
                ref_getting_closer(s, a, ns, Beacon, ref_manhattan, 1.0, -1.0),
            ),
            'rew.getting_closer defaults',
            info,
        )
        check(
            not has_beacon
            or same(
                rew.proportional_to_distance(s, a, ns, object_type=Beacon),
                ref_proportional(s, a, ns, Beacon, ref_manhattan, -1.0),
            ),
            'rew.proportional_to_distance defaults',
            info,
        )
        check(
            same(
                rew.getting_closer_shortest_path(
                    s, a, ns, object_type=Exit, reward_closer=p, reward_further=q
                ),
                ref_getting_closer_path(s, a, ns, Exit, p, q),
            ),
            'rew.getting_closer_shortest_path',
            info,
        )

        # door / pick and drop / memory / living
        check(
            same(
                rew.actuate_door(s, a, ns, reward_open=p, reward_close=q),
                ref_actuate_door(s, a, ns, p, q),
            ),
            'rew.actuate_door',
            info,
        )
        for object_type in (Key, Floor):
            check(
                same(
                    rew.pickndrop(
                        s,
                        a,
                        ns,
                        object_type=object_type,
                        reward_pick=p,
                        reward_drop=q,
                    ),
                    ref_pickndrop(s, a, ns, object_type, p, q),
                ),
                'rew.pickndrop',
                info,
            )
        check(
            not has_beacon
            or same(
                rew.reach_exit_memory(s, a, ns, reward_good=p, reward_bad=q),
                ref_memory(s, a, ns, p, q),
            ),
            'rew.reach_exit_memory',
            info,
        )
        check(same(rew.living_reward(s, a, ns, reward=p), p), 'living', info)

        # determinism: a second call gives the very same answer
        check(
            same(
                rew.getting_closer_shortest_path(
                    s, a, ns, object_type=Exit, reward_closer=p, reward_further=q
                ),
                ref_getting_closer_path(s, a, ns, Exit, p, q),
            ),
            'repeat call',
            info,
        )

        # composites: sum of parts / any / all of parts
        parts = [
            partial(rew.reach_exit, reward_on=5.0, reward_off=0.0),
            partial(rew.bump_into_wall, reward=p),
            partial(rew.bump_moving_obstacle, reward=q),
            partial(
                rew.getting_closer,
                object_type=Exit,
                reward_closer=0.2,
                reward_further=-0.2,
            ),
            partial(rew.living_reward, reward=-0.05),
        ]
        for k in range(len(parts) + 1):
            # (the builtin sum of a list: since python 3.12 it is compensated)
            expected = sum([part(s, a, ns) for part in parts[:k]])
            check(
                same(
                    rew.reduce_sum(s, a, ns, reward_functions=parts[:k]),
                    expected,
                ),
                'reduce_sum',
                k,
                info,
            )
        tparts = [ter.reach_exit, ter.bump_moving_obstacle, ter.bump_into_wall]
        values = [on_exit, on_obstacle, bumps]
        for k in range(len(tparts) + 1):
            for perm in itertools.permutations(range(3), k):
                fs = [tparts[i] for i in perm]
                vs = [values[i] for i in perm]
                check(
                    same(
                        ter.reduce_any(s, a, ns, terminating_functions=fs),
                        any(vs),
                    ),
                    'reduce_any',
                    info,
                )
                check(
                    same(
                        ter.reduce_all(s, a, ns, terminating_functions=fs),
                        all(vs),
                    ),
                    'reduce_all',
                    info,
                )
    return n


# --- environments assembled as in the shipped YAML files ---------------------

OBS_AREA = Area((-6, 0), (-3, 3))


def make_env(reset, transitions, reward_parts, termination_parts, shape):
    objects = [Wall, Floor, Exit, Door, Key, MovingObstacle, Beacon]
    return GridWorld(
        StateSpace(Shape(*shape), objects, COLORS),
        ActionSpace(ACTIONS),
        ObservationSpace(Shape(7, 7), objects, COLORS),
        reset,
        partial(tra.chain, transition_functions=transitions),
        partial(partially_occluded, area=OBS_AREA),
        partial(rew.reduce_sum, reward_functions=reward_parts),
        partial(ter.reduce_any, terminating_functions=termination_parts),
    )


def shipped_like_envs():
    exit_reward = partial(rew.reach_exit, reward_on=5.0, reward_off=0.0)
    closer = partial(
        rew.getting_closer,
        distance_function=Position.manhattan_distance,
        object_type=Exit,
        reward_closer=0.2,
        reward_further=-0.2,
    )
    living = partial(rew.living_reward, reward=-0.05)
    move_turn = [tra.move_agent, tra.turn_agent]

    yield 'empty.8x8', make_env(
        partial(resets.empty, Shape(8, 8), random_agent=True),
        move_turn,
        [exit_reward, closer, living],
        [ter.reach_exit],
        (8, 8),
    ), exit_reward
    yield 'empty.4x6', make_env(
        partial(resets.empty, Shape(4, 6), random_agent=True, random_exit=True),
        move_turn,
        [exit_reward, closer, living],
        [ter.reach_exit],
        (4, 6),
    ), exit_reward
    yield 'keydoor.7x9', make_env(
        partial(resets.keydoor, Shape(7, 9)),
        move_turn + [tra.actuate_door, tra.pickndrop],
        [
            exit_reward,
            partial(
                rew.pickndrop, object_type=Key, reward_pick=1.0, reward_drop=-1.0
            ),
            partial(rew.actuate_door, reward_open=1.0, reward_close=-1.0),
            closer,
            living,
        ],
        [ter.reach_exit],
        (7, 9),
    ), exit_reward
    yield 'dynamic_obstacles.7x7', make_env(
        partial(
            resets.dynamic_obstacles,
            Shape(7, 7),
            num_obstacles=2,
            random_agent=False,
        ),
        move_turn + [tra.move_obstacles],
        [
            exit_reward,
            partial(rew.bump_moving_obstacle, reward=-1.0),
            partial(rew.bump_into_wall, reward=-1.0),
            closer,
            living,
        ],
        [ter.reach_exit, ter.bump_moving_obstacle, ter.bump_into_wall],
        (7, 7),
    ), exit_reward
    yield 'crossing.7x9', make_env(
        partial(resets.crossing, Shape(7, 9), num_rivers=2, object_type=Wall),
        move_turn,
        [exit_reward, closer, living],
        [ter.reach_exit],
        (7, 9),
    ), exit_reward
    yield 'memory.5x9', make_env(
        partial(
            resets.memory,
            Shape(5, 9),
            colors=[Color.RED, Color.GREEN, Color.BLUE, Color.YELLOW],
        ),
        move_turn,
        [
            partial(rew.reach_exit_memory, reward_good=5.0, reward_bad=-5.0),
            living,
        ],
        [ter.reach_exit],
        (5, 9),
    ), None


def check_trajectories(seeds, n_steps):
    """several environments alive in one process, stepped and re-seeded"""
    envs = list(shipped_like_envs())
    steps = 0
    for seed in seeds:
        policy = random.Random(seed)
        for name, env, exit_reward in envs:
            env.set_seed(seed)
            env.reset()
            first_state = env.state
            for _ in range(n_steps):
                state = env.state
                action = policy.choice(ACTIONS)
                reward, done = env.step(action)
                next_state = env.state
                steps += 1

                parts = env._reward_function.keywords['reward_functions']
                expected = sum(
                    [part(state, action, next_state) for part in parts]
                )
                check(same(reward, expected), name, 'reward is sum of parts')

                on_exit = isinstance(ref_agent_cell(next_state), Exit)
                check(
                    same(ter.reach_exit(state, action, next_state), on_exit),
                    name,
                    'exit termination',
                )
                tparts = env._termination_function.keywords[
                    'terminating_functions'
                ]
                check(
                    same(
                        done,
                        any(t(state, action, next_state) for t in tparts),
                    ),
                    name,
                    'termination is any of parts',
                )
                if exit_reward is not None:
                    paid = exit_reward(state, action, next_state)
                    check(
                        same(paid, 5.0 if on_exit else 0.0),
                        name,
                        'exit reward paid iff exit termination',
                    )
                else:
                    paid = rew.reach_exit_memory(
                        state,
                        action,
                        next_state,
                        reward_good=5.0,
                        reward_bad=-5.0,
                    )
                    check(
                        (paid != 0.0) == on_exit,
                        name,
                        'memory reward paid iff exit termination',
                    )
                if len(tparts) == 1:
                    check(done == on_exit, name, 'terminates iff on exit')

                # the reference dynamics of the agent's translation
                if action in MOVE_TURNS:
                    target = ref_target(state, action)
                    moves = (
                        ref_inside(state, target)
                        and not ref_cell(state, target).blocks_movement
                    )
                    check(
                        agent_yx(next_state)
                        == (target if moves else agent_yx(state)),
                        name,
                        'agent translation',
                    )
                else:
                    check(
                        agent_yx(next_state) == agent_yx(state),
                        name,
                        'agent stays',
                    )

                if done:
                    env.reset()

            # re-seeding reproduces the same initial state
            env.set_seed(seed)
            env.reset()
            check(env.state == first_state, name, 're-seeding')
    return steps


# ---------------------------------------------------------------------------
# focus of this demo: the distance-shaping rewards and how they locate the
# unique object they measure the distance to
# ---------------------------------------------------------------------------


def distance_rewards(s, a, ns, object_type):
    """every reward that needs the unique object of the given type"""
    yield partial(rew.proportional_to_distance, s, a, ns, object_type=object_type)
    yield partial(rew.getting_closer, s, a, ns, object_type=object_type)
    yield partial(
        rew.getting_closer_shortest_path, s, a, ns, object_type=object_type
    )
    # ... also when they are one part of a composite reward
    yield partial(
        rew.reduce_sum,
        s,
        a,
        ns,
        reward_functions=[
            partial(rew.living_reward, reward=-0.05),
            partial(rew.getting_closer, object_type=object_type),
        ],
    )


def check_unique_object_required(rnd):
    """no object / several objects of the type: the documented ValueError"""
    n = 0
    for shape in SHAPES:
        for n_exits in (0, 2, 3):
            if n_exits > shape[0] * shape[1]:
                continue
            good = random_state(rnd, shape, n_exits=1, n_beacons=0)
            bad = random_state(rnd, shape, n_exits=n_exits, n_beacons=0)
            check(len(ref_find(good, Exit)) == 1, 'generator')
            check(len(ref_find(bad, Exit)) == n_exits, 'generator')
            action = rnd.choice(ACTIONS)
            # the bad grid as next state, as state, and as both
            for s, ns in ((good, bad), (bad, good), (bad, bad)):
                for f in distance_rewards(s, action, ns, Exit):
                    if (
                        f.func is rew.proportional_to_distance
                        and ns is good
                    ):
                        # only looks at the next state, which is fine
                        check(
                            same(
                                f(),
                                ref_proportional(
                                    s, action, ns, Exit, ref_manhattan, -1.0
                                ),
                            ),
                            'proportional_to_distance on good next state',
                        )
                        continue
                    try:
                        f()
                    except ValueError:
                        n += 1
                    else:
                        check(False, 'ValueError expected', f, shape, n_exits)
                    # nothing was modified by the failed call
                    check(len(ref_find(bad, Exit)) == n_exits, 'no side effect')
    return n


def check_fixed_expectations():
    """a hand-computed non-square scenario, all headings, hard-coded numbers

        W W W W W W
        W . . W E W
        W . W W . W
        W . . . . W
        W W W W W W
    """
    rows = ['WWWWWW', 'W..WEW', 'W.WW.W', 'W....W', 'WWWWWW']
    make = {'W': Wall, '.': Floor, 'E': Exit}

    def state_at(y, x, orientation):
        grid = Grid([[make[c]() for c in row] for row in rows])
        return State(grid, Agent(Position(y, x), orientation))

    # (from, to) -> manhattan sign, shortest-path sign, proportional (next)
    expectations = [
        ((1, 1), (1, 2), 1.0, -1.0, -2),  # closer as the crow flies, a dead end
        ((1, 2), (1, 1), -1.0, 1.0, -3),
        ((1, 1), (2, 1), -1.0, 1.0, -4),
        ((3, 3), (3, 4), 1.0, 1.0, -2),
        ((3, 4), (2, 4), 1.0, 1.0, -1),
        ((2, 4), (1, 4), 1.0, 1.0, 0),
        ((3, 2), (3, 2), 0.0, 0.0, -4),
        ((3, 1), (3, 2), 1.0, 1.0, -4),
    ]
    for orientation in ORIENTATIONS:
        for (y0, x0), (y1, x1), manhattan, path, proportional in expectations:
            s = state_at(y0, x0, orientation)
            ns = state_at(y1, x1, orientation)
            for action in ACTIONS:
                check(
                    same(
                        rew.getting_closer(s, action, ns, object_type=Exit),
                        manhattan,
                    ),
                    'fixed getting_closer',
                    (y0, x0),
                    (y1, x1),
                )
                check(
                    same(
                        rew.getting_closer_shortest_path(
                            s, action, ns, object_type=Exit
                        ),
                        path,
                    ),
                    'fixed getting_closer_shortest_path',
                    (y0, x0),
                    (y1, x1),
                )
                check(
                    same(
                        rew.proportional_to_distance(
                            s,
                            action,
                            ns,
                            object_type=Exit,
                            reward_per_unit_distance=-1,
                        ),
                        proportional,
                    ),
                    'fixed proportional_to_distance',
                    (y0, x0),
                    (y1, x1),
                )
                # the exit is never found through a *sub*class relation only:
                # asking for GridObject-wide types finds many -> ValueError
                try:
                    rew.getting_closer(s, action, ns, object_type=Wall)
                except ValueError:
                    pass
                else:
                    check(False, 'many walls: ValueError expected')

    # object in a corner of a 1-row / 1-column grid, agent on top of it
    for objects in ([[Exit(), Floor(), Floor()]], [[Floor()], [Floor()], [Exit()]]):
        height, width = len(objects), len(objects[0])
        for y in range(height):
            for x in range(width):
                for orientation in ORIENTATIONS:
                    ns = State(Grid(objects), Agent(Position(y, x), orientation))
                    (e,) = ref_find(ns, Exit)
                    check(
                        same(
                            rew.proportional_to_distance(
                                ns, Action.ACTUATE, ns, object_type=Exit
                            ),
                            -1.0 * ref_manhattan((y, x), e),
                        ),
                        'thin grid',
                    )
                    check(
                        same(
                            rew.getting_closer(
                                ns, Action.ACTUATE, ns, object_type=Exit
                            ),
                            0.0,
                        ),
                        'thin grid',
                    )


def main():
    rnd = random.Random(12)
    n_triples = check_components(rnd, 6)
    n_errors = check_unique_object_required(rnd)
    check_fixed_expectations()
    n_steps = check_trajectories(seeds=[0, 1, 7], n_steps=120)
    # once more: nothing above left state behind that changes the answers
    n_triples += check_components(random.Random(12), 2)
    print(
        f'OK: {CHECKS} checks, {n_triples} triples, '
        f'{n_errors} rejected grids, {n_steps} environment steps'
    )


if __name__ == '__main__':
    main()
