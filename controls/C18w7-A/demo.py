"""Check program for commit A (table-driven get_next_position).

Run as:  cd /tmp/wt7-C18 && /venv/bin/python -W ignore _seed/A/demo.py

Everything is compared against an independent re-implementation which uses
plain integer arithmetic (orientations are numbers of clockwise quarter turns).
"""
import os
import sys

sys.path.insert(0, os.getcwd())

import itertools as itt
import random

from gym_gridverse.action import Action
from gym_gridverse.agent import Agent
from gym_gridverse.envs import reward_functions as reward_fs
from gym_gridverse.envs import terminating_functions as terminating_fs
from gym_gridverse.envs import transition_functions as transition_fs
from gym_gridverse.envs.utils import get_next_position
from gym_gridverse.envs.yaml.factory import factory_env_from_data
from gym_gridverse.geometry import Area, Orientation, Position, Transform
from gym_gridverse.grid import Grid
from gym_gridverse.grid_object import Exit, Floor, Wall
from gym_gridverse.state import State

# ---------------------------------------------------------------- reference

# clockwise quarter turns from FORWARD
TURNS = {
    Orientation.FORWARD: 0,
    Orientation.RIGHT: 1,
    Orientation.BACKWARD: 2,
    Orientation.LEFT: 3,
}
# heading (dy, dx) after k clockwise quarter turns;  FORWARD looks up (-y)
HEADINGS = [(-1, 0), (0, 1), (1, 0), (0, -1)]
MOVES = {
    Action.MOVE_FORWARD: 0,
    Action.MOVE_RIGHT: 1,
    Action.MOVE_BACKWARD: 2,
    Action.MOVE_LEFT: 3,
}
TURN_ACTIONS = {Action.TURN_LEFT: 3, Action.TURN_RIGHT: 1}
ORIENTATION_OF_TURNS = {k: o for o, k in TURNS.items()}


def ref_next_yx(y, x, orientation, action):
    if action not in MOVES:
        return y, x
    dy, dx = HEADINGS[(TURNS[orientation] + MOVES[action]) % 4]
    return y + dy, x + dx


ALL_ORIENTATIONS = [
    Orientation.FORWARD,
    Orientation.BACKWARD,
    Orientation.LEFT,
    Orientation.RIGHT,
    # aliases
    Orientation.F,
    Orientation.B,
    Orientation.L,
    Orientation.R,
]
ALL_ACTIONS = list(Action)
assert len(ALL_ACTIONS) == 8

checks = 0

# ------------------------------------------------- 1. helper, exhaustively

coordinates = list(range(-6, 7)) + [10**30, -(10**30), 2**63, -(2**63) - 1]
for _round in range(2):  # second round: repeated calls give the same results
    for y, x in itt.product(coordinates, repeat=2):
        position = Position(y, x)
        for orientation in ALL_ORIENTATIONS:
            for action in ALL_ACTIONS:
                result = get_next_position(position, orientation, action)
                assert type(result) is Position
                assert result.yx == ref_next_yx(y, x, orientation, action), (
                    position,
                    orientation,
                    action,
                    result,
                )
                # inputs are untouched
                assert position.yx == (y, x)

                if action in MOVES:
                    # a fresh object, never the input nor a shared table entry
                    assert result is not position
                    for o in TURNS:
                        assert result is not Position.from_orientation(o)
                    # agrees with the pose algebra
                    move_orientation = ORIENTATION_OF_TURNS[MOVES[action]]
                    pose = Transform(position, orientation)
                    assert result == pose * Position.from_orientation(
                        move_orientation
                    )
                    assert result == position + Position.from_orientation(
                        orientation * move_orientation
                    )
                    # moving in the opposite relative direction undoes the move
                    opposite = {
                        Action.MOVE_FORWARD: Action.MOVE_BACKWARD,
                        Action.MOVE_BACKWARD: Action.MOVE_FORWARD,
                        Action.MOVE_LEFT: Action.MOVE_RIGHT,
                        Action.MOVE_RIGHT: Action.MOVE_LEFT,
                    }[action]
                    assert (
                        get_next_position(result, orientation, opposite)
                        == position
                    )
                else:
                    # the very same object is handed back
                    assert result is position
                checks += 1

# the unit offsets exposed by the geometry module were not disturbed
assert Position.from_orientation(Orientation.F) == Position(-1, 0)
assert Position.from_orientation(Orientation.R) == Position(0, 1)
assert Position.from_orientation(Orientation.B) == Position(1, 0)
assert Position.from_orientation(Orientation.L) == Position(0, -1)

# --------------------------------------------------- 2. unusual arguments

# an area in place of the position is shifted as a whole
area = Area((-2, 3), (4, 4))
for orientation in ALL_ORIENTATIONS:
    for action in ALL_ACTIONS:
        result = get_next_position(area, orientation, action)
        if action in MOVES:
            dy, dx = HEADINGS[(TURNS[orientation] + MOVES[action]) % 4]
            assert type(result) is Area
            assert result.ys == (-2 + dy, 3 + dy) and result.xs == (4 + dx, 4 + dx)
        else:
            assert result is area
        checks += 1

# a full pose in place of the orientation is (and was) understood
for orientation in ALL_ORIENTATIONS:
    pose = Transform(Position(100, -100), orientation)
    for action in ALL_ACTIONS:
        result = get_next_position(Position(3, -4), pose, action)
        assert result.yx == ref_next_yx(3, -4, orientation, action)
        assert pose == Transform(Position(100, -100), orientation)
        checks += 1


class Unhashable:
    __hash__ = None


# things which are not orientations
for bad in [None, 'FORWARD', 0, 1.5, [], {}, Unhashable(), Position(0, 1), (0, 1)]:
    for action in ALL_ACTIONS:
        position = Position(2, 2)
        if action in MOVES:
            try:
                get_next_position(position, bad, action)
            except TypeError:
                pass
            else:
                raise AssertionError(('should raise TypeError', bad, action))
        else:
            # orientation is not even looked at
            assert get_next_position(position, bad, action) is position
        checks += 1

# things which are not actions
for bad in [None, 'MOVE_FORWARD', 0, Orientation.F]:
    position = Position(2, 2)
    assert get_next_position(position, Orientation.F, bad) is position
    assert get_next_position(position, None, bad) is position
    checks += 1
for bad in [[], {}, Unhashable()]:
    try:
        get_next_position(Position(2, 2), Orientation.F, bad)
    except TypeError:
        pass
    else:
        raise AssertionError(('should raise TypeError', bad))
    checks += 1

# ------------------------------- 3. components built on top of the helper

move_agent = transition_fs.factory('move_agent')
bump_reward = reward_fs.factory('bump_into_wall', reward=-7.5)
bump_terminal = terminating_fs.factory('bump_into_wall')

SHAPES = [
    (1, 1),
    (1, 2),
    (2, 1),
    (1, 5),
    (5, 1),
    (2, 2),
    (2, 3),
    (3, 2),
    (3, 3),
    (3, 7),
    (7, 3),
    (4, 6),
    (6, 4),
    (5, 5),
]

prng = random.Random(1234)
for height, width in SHAPES:
    for fill in ['floor', 'wall', 'random', 'random', 'random']:
        kinds = [
            [
                {
                    'floor': 'F',
                    'wall': 'W',
                    'random': prng.choice('FFWE'),
                }[fill]
                for _ in range(width)
            ]
            for _ in range(height)
        ]
        factories = {'F': Floor, 'W': Wall, 'E': Exit}

        for y, x in itt.product(range(height), range(width)):
            for orientation in TURNS:
                for action in ALL_ACTIONS:
                    grid = Grid(
                        [[factories[k]() for k in row] for row in kinds]
                    )
                    objects_before = [list(row) for row in grid.objects]
                    state = State(grid, Agent(Position(y, x), orientation))
                    transform_before = state.agent.transform

                    # expected
                    ny, nx = ref_next_yx(y, x, orientation, action)
                    inside = 0 <= ny < height and 0 <= nx < width
                    moved = action in MOVES and inside and kinds[ny][nx] != 'W'
                    # NOTE: for other actions the tentative position is the
                    # current one, so an agent placed on a wall keeps `bumping`
                    bump = inside and kinds[ny][nx] == 'W'

                    assert bump_reward(state, action, state) == (
                        -7.5 if bump else 0.0
                    )
                    assert bump_terminal(state, action, state) is bump
                    assert state.agent.position == Position(y, x)

                    move_agent(state, action)
                    assert state.agent.transform is transform_before
                    assert state.agent.orientation is orientation
                    assert state.agent.position.yx == (
                        (ny, nx) if moved else (y, x)
                    ), (kinds, y, x, orientation, action)
                    # the grid is left alone
                    assert all(
                        a is b
                        for row_a, row_b in zip(grid.objects, objects_before)
                        for a, b in zip(row_a, row_b)
                    )
                    checks += 1

# ------------------------------------------------- 4. whole environments


def env_data(reset_function, transition_names):
    return {
        'state_space': {
            'objects': ['Wall', 'Floor', 'Exit'],
            'colors': ['NONE'],
        },
        'observation_space': {
            'objects': ['Wall', 'Floor', 'Exit'],
            'colors': ['NONE'],
        },
        'reset_function': reset_function,
        'transition_functions': [{'name': n} for n in transition_names],
        'reward_functions': [
            {'name': 'bump_into_wall', 'reward': -1.0},
            {'name': 'living_reward', 'reward': -0.25},
        ],
        'observation_function': {
            'name': 'partially_occluded',
            'area': [[-4, 0], [-2, 2]],
        },
        'terminating_function': {'name': 'bump_into_wall'},
    }


ENVS = [
    env_data(
        {
            'name': 'crossing',
            'shape': [7, 9],
            'num_rivers': 2,
            'object_type': 'Wall',
        },
        ['move_agent', 'turn_agent'],
    ),
    env_data(
        {
            'name': 'crossing',
            'shape': [11, 5],
            'num_rivers': 1,
            'object_type': 'Wall',
        },
        ['turn_agent', 'move_agent'],
    ),
    env_data(
        {
            'name': 'empty',
            'shape': [4, 8],
            'random_agent': True,
            'random_exit': True,
        },
        ['move_agent', 'turn_agent'],
    ),
]

for data_index, data in enumerate(ENVS):
    # two environments living in the same process
    env_a = factory_env_from_data(data)
    env_b = factory_env_from_data(data)
    for seed in range(12):
        env_a.set_seed(seed)
        env_b.set_seed(seed)
        env_a.reset()
        env_b.reset()
        prng = random.Random(1000 * data_index + seed)

        for _ in range(60):
            state = env_a.state
            assert env_b.state == state
            height, width = state.grid.shape.as_tuple
            y, x = state.agent.position.yx
            orientation = state.agent.orientation
            action = prng.choice(ALL_ACTIONS)

            # independent simulation (move and turn never both apply)
            ny, nx = ref_next_yx(y, x, orientation, action)
            inside = 0 <= ny < height and 0 <= nx < width
            blocked = inside and isinstance(state.grid[ny, nx], Wall)
            moved = action in MOVES and inside and not blocked
            bump = blocked
            expected_yx = (ny, nx) if moved else (y, x)
            expected_orientation = ORIENTATION_OF_TURNS[
                (TURNS[orientation] + TURN_ACTIONS.get(action, 0)) % 4
            ]
            expected_reward = -0.25 + (-1.0 if bump else 0.0)

            reward_a, terminal_a = env_a.step(action)
            reward_b, terminal_b = env_b.step(action)
            assert (reward_a, terminal_a) == (reward_b, terminal_b)
            assert reward_a == expected_reward
            assert terminal_a is bump
            assert env_a.state.agent.position.yx == expected_yx
            assert env_a.state.agent.orientation is expected_orientation
            assert env_a.state.grid == state.grid
            # the previous state was not modified by the step
            assert state.agent.position.yx == (y, x)
            assert state.agent.orientation is orientation
            checks += 1

            if terminal_a:
                break

print(f'demo A: {checks} checks passed')
