"""Demo for change B (GridWorld wiring helpers in gym_gridverse/envs/gridworld.py).

Checks property C20 -- "the gym adapter is a faithful view of the wrapped
environment" -- from the gym layer down to the *components* of the GridWorld:

* the reference implementation embedded here never touches GridWorld: it calls
  independently built reset / transition / reward / termination / observation
  functions directly, with its own generator `make_rng(seed)`, copying the
  state itself;
* the GridWorld under test is built on recording components (and recording
  spaces), so that besides the values, the *calls* are checked: which
  component, in which order, on which objects, with which generator, how many
  times -- with library debugging on and off.

Exits 0 on the pristine tree and with the change applied.

Run from the worktree root:  /venv/bin/python _seed/B/demo.py
"""
import os
import sys

sys.path.insert(0, os.getcwd())

import ast  # noqa: E402
import copy  # noqa: E402
import glob  # noqa: E402
import pickle  # noqa: E402
import random  # noqa: E402
import re  # noqa: E402
import warnings  # noqa: E402

warnings.filterwarnings('ignore')

import gym  # noqa: E402
import numpy as np  # noqa: E402
import numpy.random as rnd  # noqa: E402

import gym_gridverse.gym as gg  # noqa: E402
from gym_gridverse.action import Action  # noqa: E402
from gym_gridverse.debugging import gv_debug, reset_gv_debug  # noqa: E402
from gym_gridverse.envs.gridworld import GridWorld  # noqa: E402
from gym_gridverse.envs.yaml import factory as yf  # noqa: E402
from gym_gridverse.envs.yaml.factory import factory_env_from_data  # noqa: E402
from gym_gridverse.envs.yaml.schemas import schemas  # noqa: E402
from gym_gridverse.grid_object import Beacon, Color  # noqa: E402
from gym_gridverse.gym import GymEnvironment, GymStateWrapper  # noqa: E402
from gym_gridverse.outer_env import OuterEnv  # noqa: E402
from gym_gridverse.representations.observation_representations import (  # noqa: E402
    make_observation_representation,
)
from gym_gridverse.representations.state_representations import (  # noqa: E402
    make_state_representation,
)
from gym_gridverse.rng import make_rng  # noqa: E402
from gym_gridverse.spaces import ActionSpace  # noqa: E402

REPRESENTATION_NAMES = ['default', 'no-overlap', 'compact']
ALL_ACTION_NAMES = [
    'MOVE_FORWARD',
    'MOVE_BACKWARD',
    'MOVE_LEFT',
    'MOVE_RIGHT',
    'TURN_LEFT',
    'TURN_RIGHT',
    'ACTUATE',
    'PICK_N_DROP',
]

# ---------------------------------------------------------------------------
# minimal YAML-subset reader (PyYAML is not installed here): block mappings,
# block sequences (of scalars or mappings), flow sequences, plain scalars
# ---------------------------------------------------------------------------


def _scalar(text):
    text = text.strip()
    if text.startswith('['):
        quoted = re.sub(
            r'[A-Za-z_][A-Za-z_0-9]*', lambda m: repr(m.group(0)), text
        )
        return ast.literal_eval(quoted)
    if text in ('True', 'true'):
        return True
    if text in ('False', 'false'):
        return False
    for cast in (int, float):
        try:
            return cast(text)
        except ValueError:
            pass
    return text


def parse_yaml(text):
    lines = []
    for raw in text.splitlines():
        raw = raw.split('#')[0].rstrip()
        if raw.strip():
            lines.append((len(raw) - len(raw.lstrip(' ')), raw.strip()))
    pos = 0

    def block(indent):
        nonlocal pos
        if lines[pos][1].startswith('- '):
            out = []
            while (
                pos < len(lines)
                and lines[pos][0] == indent
                and lines[pos][1].startswith('- ')
            ):
                ind, body = lines[pos]
                body = body[2:].strip()
                if re.match(r'^[A-Za-z_][A-Za-z_0-9]*:( |$)', body):
                    lines[pos] = (ind + 2, body)
                    out.append(block(ind + 2))
                else:
                    out.append(_scalar(body))
                    pos += 1
            return out
        out = {}
        while (
            pos < len(lines)
            and lines[pos][0] == indent
            and not lines[pos][1].startswith('- ')
        ):
            key, _, rest = lines[pos][1].partition(':')
            pos += 1
            if rest.strip():
                out[key.strip()] = _scalar(rest)
            else:
                out[key.strip()] = block(lines[pos][0])
        return out

    result = block(lines[0][0])
    assert pos == len(lines)
    return result


def load_data(path):
    with open(path) as f:
        return parse_yaml(f.read())


def make_inner(data):
    return factory_env_from_data(copy.deepcopy(data))


# the registered ids build their environment through this module-level name of
# gym_gridverse.gym;  route it through the reader above
gg.factory_env_from_yaml = lambda path: make_inner(load_data(path))

# ---------------------------------------------------------------------------
# configurations: the 21 shipped ones + awkward hand-written ones
# ---------------------------------------------------------------------------

SHIPPED = {
    os.path.basename(path): load_data(path)
    for path in sorted(glob.glob('gym_gridverse/registered_envs/*.yaml'))
}
assert len(SHIPPED) == 21, len(SHIPPED)
assert set(SHIPPED) == set(gg.STRING_TO_YAML_FILE.values())
for name, data in SHIPPED.items():
    # the copies under yaml/ are the same configurations
    assert load_data(os.path.join('yaml', name)) == data, name

_LIVING = {'name': 'living_reward', 'reward': -0.25}
_REACH = {'name': 'reach_exit', 'reward_on': 3.0, 'reward_off': 0.5}

EXTRA = {
    # non-square, reordered subset of actions, asymmetric view, raytracing
    'x_empty_4x7_raytracing': {
        'state_space': {'objects': ['Wall', 'Floor', 'Exit'], 'colors': ['NONE']},
        'action_space': ['TURN_RIGHT', 'MOVE_FORWARD', 'TURN_LEFT'],
        'observation_space': {
            'objects': ['Wall', 'Floor', 'Exit'],
            'colors': ['NONE'],
        },
        'reset_function': {
            'name': 'empty',
            'shape': [4, 7],
            'random_agent': True,
            'random_exit': True,
        },
        'transition_functions': [{'name': 'move_agent'}, {'name': 'turn_agent'}],
        'reward_functions': [_LIVING, _REACH],
        'observation_function': {
            'name': 'raytracing',
            'area': [[-4, 1], [-1, 3]],
        },
        'terminating_function': {'name': 'reach_exit'},
    },
    # tall grid, stochastic observations, no action_space (all 8 actions),
    # view behind the agent, single-action duplicates impossible -> full list
    'x_keydoor_9x5_stochastic': {
        'state_space': {
            'objects': ['Wall', 'Floor', 'Exit', 'Door', 'Key'],
            'colors': ['NONE', 'YELLOW'],
        },
        'observation_space': {
            'objects': ['Wall', 'Floor', 'Exit', 'Door', 'Key'],
            'colors': ['NONE', 'YELLOW'],
        },
        'reset_function': {'name': 'keydoor', 'shape': [9, 5]},
        'transition_functions': [
            {'name': 'move_agent'},
            {'name': 'turn_agent'},
            {'name': 'actuate_door'},
            {'name': 'pickndrop'},
        ],
        'reward_functions': [
            _LIVING,
            {
                'name': 'pickndrop',
                'object_type': 'Key',
                'reward_pick': 1.5,
                'reward_drop': -1.5,
            },
        ],
        'observation_function': {
            'name': 'stochastic_raytracing',
            'area': [[-2, 2], [-2, 2]],
        },
        'terminating_function': {'name': 'reach_exit'},
    },
    # 1-wide view, one action only, fully transparent
    'x_dynamic_5x8_narrow': {
        'state_space': {
            'objects': ['Wall', 'Floor', 'Exit', 'MovingObstacle'],
            'colors': ['NONE'],
        },
        'action_space': ['MOVE_FORWARD'],
        'observation_space': {
            'objects': ['Wall', 'Floor', 'Exit', 'MovingObstacle'],
            'colors': ['NONE'],
        },
        'reset_function': {
            'name': 'dynamic_obstacles',
            'shape': [5, 8],
            'num_obstacles': 3,
            'random_agent': True,
        },
        'transition_functions': [
            {'name': 'move_obstacles'},
            {'name': 'move_agent'},
        ],
        'reward_functions': [_REACH],
        'observation_function': {
            'name': 'fully_transparent',
            'area': [[-3, 0], [0, 0]],
        },
        'terminating_function': {
            'name': 'reduce_any',
            'terminating_functions': [
                {'name': 'reach_exit'},
                {'name': 'bump_moving_obstacle'},
            ],
        },
    },
}


def action_names(data):
    return list(data.get('action_space', ALL_ACTION_NAMES))


# ---------------------------------------------------------------------------
# components, built like factory_env_from_data does, but kept apart
# ---------------------------------------------------------------------------


class Parts:
    def __init__(self, data):
        data = schemas['env'].validate(copy.deepcopy(data))
        state_space_builder = yf.factory_state_space_builder(
            data['state_space']
        )
        self.action_space = (
            yf.factory_action_space(data['action_space'])
            if 'action_space' in data
            else ActionSpace(list(Action))
        )
        observation_space_builder = yf.factory_observation_space_builder(
            data['observation_space']
        )
        self.reset = yf.factory_reset_function(data['reset_function'])
        self.transition = yf.factory_transition_function(
            {
                'name': 'chain',
                'transition_functions': data['transition_functions'],
            }
        )
        self.reward = yf.factory_reward_function(
            {'name': 'reduce_sum', 'reward_functions': data['reward_functions']}
        )
        self.observation = yf.factory_observation_function(
            data['observation_function']
        )
        self.terminating = yf.factory_terminating_function(
            data['terminating_function']
        )

        state = self.reset()
        state_space_builder.set_grid_shape(state.grid.shape)
        self.state_space = state_space_builder.build()
        observation = self.observation(state)
        observation_space_builder.set_grid_shape(observation.grid.shape)
        self.observation_space = observation_space_builder.build()


def rng_state(rng):
    return None if rng is None else pickle.dumps(rng.bit_generator.state)


class Recorder:
    """Recording components;  parameter names differ from the library's on
    purpose: protocol functions may only be called positionally (+ `rng`)"""

    def __init__(self, parts):
        self.parts = parts
        self.log = []

    def reset_function(self, *, rng=None):
        self.log.append(('reset', rng, rng_state(rng)))
        return self.parts.reset(rng=rng)

    def transition_function(self, s, a, *, rng=None):
        self.log.append(
            ('transition', s, a, rng, rng_state(rng), pickle.dumps(s))
        )
        return self.parts.transition(s, a, rng=rng)

    def reward_function(self, s, a, s_next):
        self.log.append(('reward', s, a, s_next))
        return self.parts.reward(s, a, s_next)

    def termination_function(self, s, a, s_next):
        self.log.append(('terminating', s, a, s_next))
        return self.parts.terminating(s, a, s_next)

    def observation_function(self, s, *, rng=None):
        self.log.append(('observation', s, rng, rng_state(rng)))
        return self.parts.observation(s, rng=rng)

    def take(self):
        log, self.log = self.log, []
        return log


class SpaceSpy:
    """Delegates everything to the wrapped space, recording `contains`"""

    def __init__(self, name, space, recorder):
        self.__dict__['_name'] = name
        self.__dict__['_space'] = space
        self.__dict__['_recorder'] = recorder

    def contains(self, x):
        self._recorder.log.append((self._name + '.contains', x))
        return self._space.contains(x)

    def __getattr__(self, name):
        return getattr(self._space, name)


def make_recorded_gridworld(data):
    parts = Parts(data)
    recorder = Recorder(parts)
    env = GridWorld(
        SpaceSpy('state_space', parts.state_space, recorder),
        SpaceSpy('action_space', parts.action_space, recorder),
        SpaceSpy('observation_space', parts.observation_space, recorder),
        recorder.reset_function,
        recorder.transition_function,
        recorder.observation_function,
        recorder.reward_function,
        recorder.termination_function,
    )
    return env, parts, recorder


# ---------------------------------------------------------------------------
# reference implementation (never touches GridWorld)
# ---------------------------------------------------------------------------


class Reference:
    def __init__(self, data, seed):
        self.parts = Parts(data)
        self.actions = [Action[name] for name in action_names(data)]
        self.rng = make_rng(seed)
        self.state = None
        self.observation = None

    def seed(self, seed):
        self.rng = make_rng(seed)

    def reset(self):
        self.state = self.parts.reset(rng=self.rng)
        self.observation = None

    def step(self, index):
        action = self.actions[index]
        state = self.state
        next_state = pickle.loads(pickle.dumps(state))
        self.parts.transition(next_state, action, rng=self.rng)
        reward = self.parts.reward(state, action, next_state)
        terminal = self.parts.terminating(state, action, next_state)
        self.state = next_state
        self.observation = None
        return reward, terminal

    def observe(self):
        # at most one observation per state
        if self.observation is None:
            self.observation = self.parts.observation(self.state, rng=self.rng)
        return self.observation


def assert_same_arrays(actual, expected, what):
    assert isinstance(actual, dict), what
    assert list(actual.keys()) == list(expected.keys()), what
    for key in expected:
        assert actual[key].dtype == expected[key].dtype, (what, key)
        assert np.array_equal(actual[key], expected[key]), (what, key)


def index_sequence(n, seed, length):
    generator = random.Random(seed * 7919 + n)
    seq = list(range(n)) + [generator.randrange(n) for _ in range(length)]
    generator.shuffle(seq)
    return seq


COUNTS = {'steps': 0, 'resets': 0, 'episodes_done': 0, 'logs': 0}


# ---------------------------------------------------------------------------
# call structure
# ---------------------------------------------------------------------------


def names(log):
    return [entry[0] for entry in log]


def check_reset_log(log, env, debug, what):
    COUNTS['logs'] += 1
    expected = ['reset'] + (['state_space.contains'] if debug else [])
    assert names(log) == expected, (what, names(log))
    assert log[0][1] is env._rng, what
    if debug:
        assert log[1][1] is env.state, what


def check_step_log(log, env, state, action, debug, what):
    """`state` is the state object before the step, env.state the one after"""
    COUNTS['logs'] += 1
    expected = (
        (['state_space.contains'] if debug else [])
        + ['action_space.contains', 'transition']
        + (['state_space.contains'] if debug else [])
        + ['reward', 'terminating']
    )
    assert names(log) == expected, (what, names(log))
    next_state = env.state
    assert next_state is not state, what
    entries = iter(log)
    if debug:
        assert next(entries)[1] is state, what
    assert next(entries)[1] is action, what
    _, s, a, rng, _, pickled = next(entries)
    # the transition works on a copy: the very object that becomes the next
    # state, which was equal to the state when the transition started
    assert s is next_state and s is not state, what
    assert pickle.loads(pickled) == state, what
    assert a is action and rng is env._rng, what
    if debug:
        assert next(entries)[1] is next_state, what
    for name in ('reward', 'terminating'):
        entry = next(entries)
        assert entry[0] == name, what
        assert entry[1] is state, what
        assert entry[2] is action, what
        assert entry[3] is next_state, what


def check_observation_log(log, env, debug, what):
    COUNTS['logs'] += 1
    expected = ['observation'] + (
        ['observation_space.contains'] if debug else []
    )
    assert names(log) == expected, (what, names(log))
    assert log[0][1] is env.state, what
    assert log[0][2] is env._rng, what
    if debug:
        assert log[1][1] is env.observation, what


# ---------------------------------------------------------------------------
# rollouts through the gym layer on the recorded GridWorld
# ---------------------------------------------------------------------------


def run_rollout(data, seed, debug, use_wrapper, length, what):
    reset_gv_debug(debug)
    assert gv_debug() is debug
    inner, parts, recorder = make_recorded_gridworld(data)
    obs_name = REPRESENTATION_NAMES[seed % 3]
    state_name = REPRESENTATION_NAMES[(seed + 1) % 3]
    obs_rep = make_observation_representation(obs_name, parts.observation_space)
    state_rep = make_state_representation(state_name, parts.state_space)
    base = GymEnvironment(
        OuterEnv(
            inner,
            state_representation=state_rep,
            observation_representation=obs_rep,
        )
    )
    env = GymStateWrapper(base) if use_wrapper else base
    n = len(action_names(data))
    assert base.action_space.n == n, what
    assert recorder.take() == [], what  # nothing runs at construction

    ref = Reference(data, seed)
    inner.set_seed(seed)
    assert recorder.take() == [], what
    assert rng_state(inner._rng) == rng_state(ref.rng), what

    def check_returned(returned, info, where):
        if use_wrapper:
            assert_same_arrays(returned, state_rep.convert(ref.state), where)
            assert base.state_space.contains(returned), where
            if info is not None:
                assert list(info) == ['observation'], where
                assert_same_arrays(
                    info['observation'],
                    obs_rep.convert(ref.observe()),
                    where,
                )
        else:
            assert_same_arrays(
                returned, obs_rep.convert(ref.observe()), where
            )
            assert base.observation_space.contains(returned), where
            assert info in (None, {}), where
        # the inner objects are those of the reference
        assert inner.state == ref.state, where
        assert inner.observation == ref.observe(), where
        assert_same_arrays(base.state, state_rep.convert(ref.state), where)
        assert_same_arrays(
            base.observation, obs_rep.convert(ref.observe()), where
        )
        # and the generators are in lock-step
        assert rng_state(inner._rng) == rng_state(ref.rng), where

    def do_reset(where):
        returned = env.reset()
        ref.reset()
        COUNTS['resets'] += 1
        log = recorder.take()
        k = 2 if debug else 1
        check_reset_log(log[:k], inner, debug, where)
        # (the state wrapper resets through the adapter, which produces the
        # observation of the fresh state as well)
        check_observation_log(log[k:], inner, debug, where)
        check_returned(returned, None, where)
        # reading again: no component runs again
        assert recorder.take() == [], where

    do_reset(what + ' reset')

    for t, index in enumerate(index_sequence(n, seed, length)):
        where = f'{what} t={t} index={index}'
        state = inner.state
        action = parts.action_space.actions[index]
        assert action is Action[action_names(data)[index]], where
        returned, reward, done, info = env.step(index)
        ref_reward, ref_done = ref.step(index)
        COUNTS['steps'] += 1
        log = recorder.take()
        k = 6 if debug else 4
        check_step_log(log[:k], inner, state, action, debug, where)
        check_observation_log(log[k:], inner, debug, where)
        assert type(reward) is type(ref_reward) and reward == ref_reward, where
        assert done is ref_done, where
        check_returned(returned, info, where)
        assert recorder.take() == [], where
        if done:
            COUNTS['episodes_done'] += 1
            do_reset(where + ' re-reset')

    # re-seeding: a new generator, restarting the stream
    old_rng = inner._rng
    inner.set_seed(seed)
    assert inner._rng is not old_rng, what
    assert rng_state(inner._rng) == rng_state(make_rng(seed)), what
    ref.seed(seed)
    do_reset(what + ' re-seeded')
    assert recorder.take() == [], what


# ---------------------------------------------------------------------------
# the functional API on its own
# ---------------------------------------------------------------------------


def check_functional(data, seed, what):
    for debug in (True, False):
        reset_gv_debug(debug)
        inner, parts, recorder = make_recorded_gridworld(data)
        ref = Reference(data, seed)
        actions = parts.action_space.actions

        # before seeding the components receive rng=None
        assert inner._rng is None
        state = inner.functional_reset()
        log = recorder.take()
        assert names(log)[0] == 'reset' and log[0][1] is None, what
        observation = inner.functional_observation(state)
        log = recorder.take()
        assert names(log)[0] == 'observation' and log[0][2] is None, what
        inner.functional_step(state, actions[0])
        log = recorder.take()
        transition = [entry for entry in log if entry[0] == 'transition']
        assert len(transition) == 1 and transition[0][3] is None, what
        # the functional API does not touch the stored state / observation
        for attribute in ('state', 'observation'):
            try:
                getattr(inner, attribute)
            except RuntimeError:
                pass
            else:
                raise AssertionError(what + ': functional API stored a state')
        assert recorder.take() == [], what

        # set_seed() without a seed: a fresh generator each time
        inner.set_seed()
        rng_1 = inner._rng
        inner.set_seed(None)
        assert isinstance(rng_1, rnd.Generator), what
        assert isinstance(inner._rng, rnd.Generator), what
        assert inner._rng is not rng_1, what

        inner.set_seed(seed)
        assert rng_state(inner._rng) == rng_state(ref.rng), what
        state = inner.functional_reset()
        ref.reset()
        assert state == ref.state, what
        log = recorder.take()
        assert names(log) == ['reset'] + (
            ['state_space.contains'] if debug else []
        ), what
        assert log[0][1] is inner._rng, what
        if debug:
            assert log[1][1] is state, what

        # the same state stepped repeatedly is never modified, every action
        pickled = pickle.dumps(state)
        for index, action in enumerate(actions):
            next_state, reward, terminal = inner.functional_step(state, action)
            log = recorder.take()
            saved = ref.state
            ref_reward, ref_terminal = ref.step(index)
            assert next_state == ref.state, (what, index)
            assert reward == ref_reward and terminal is ref_terminal, what
            assert type(reward) is type(ref_reward), what
            assert pickle.dumps(state) == pickled, what
            assert next_state is not state, what
            expected = (
                (['state_space.contains'] if debug else [])
                + ['action_space.contains', 'transition']
                + (['state_space.contains'] if debug else [])
                + ['reward', 'terminating']
            )
            assert names(log) == expected, (what, names(log))
            entry = log[-3] if not debug else log[2]
            assert entry[0] == 'transition', what
            assert entry[1] is next_state and entry[3] is inner._rng, what
            for entry in log[-2:]:
                assert entry[1] is state and entry[2] is action, what
                assert entry[3] is next_state, what

            observation = inner.functional_observation(next_state)
            log = recorder.take()
            ref_observation = ref.observe()
            assert observation == ref_observation, (what, index)
            assert names(log) == ['observation'] + (
                ['observation_space.contains'] if debug else []
            ), what
            assert log[0][1] is next_state and log[0][2] is inner._rng, what
            if debug:
                assert log[1][1] is observation, what
            # the functional observation is not memoised: it runs again
            inner.functional_observation(next_state)
            ref.parts.observation(ref.state, rng=ref.rng)
            assert names(recorder.take())[0] == 'observation', what
            assert rng_state(inner._rng) == rng_state(ref.rng), what
            ref.state = saved  # step from the same state again

        # actions outside the action space: always refused (debug or not),
        # before any component runs, without touching the generator
        outside = [a for a in Action if a not in actions]
        outside += ['MOVE_FORWARD', 0, None]
        before = rng_state(inner._rng)
        for action in outside:
            try:
                inner.functional_step(state, action)
            except ValueError as error:
                assert (
                    str(error)
                    == 'action {action} does not satisfy action-space'
                ), (what, str(error))
            else:
                raise AssertionError(what + ': foreign action accepted')
            log = recorder.take()
            assert names(log) == (
                ['state_space.contains'] if debug else []
            ) + ['action_space.contains'], (what, names(log))
        assert rng_state(inner._rng) == before, what
        assert pickle.dumps(state) == pickled, what
    reset_gv_debug(True)


def check_debug_errors():
    """what the debug checks refuse, with which message, and when"""
    data = SHIPPED['gv_empty.4x4.yaml']
    for debug in (True, False):
        reset_gv_debug(debug)
        inner, parts, recorder = make_recorded_gridworld(data)
        inner.set_seed(5)
        good = inner.functional_reset()
        recorder.take()
        action = parts.action_space.actions[0]

        # a state which is not in the state space (Beacon is not an object of
        # this configuration; neither is the colour RED)
        bad = pickle.loads(pickle.dumps(good))
        bad.grid[1, 1] = Beacon(Color.RED)
        assert not parts.state_space.contains(bad)

        try:
            result = inner.functional_step(bad, action)
        except ValueError as error:
            assert debug, 'no state check without debugging'
            assert str(error) == 'state does not satisfy state_space'
            assert names(recorder.take()) == ['state_space.contains']
        else:
            assert not debug, 'state check missing'
            assert names(recorder.take()) == [
                'action_space.contains',
                'transition',
                'reward',
                'terminating',
            ]
            assert isinstance(result[0], type(good))

        # a transition which leaves the state space
        original = parts.transition

        def polluting(s, a, *, rng=None):
            original(s, a, rng=rng)
            s.grid[1, 1] = Beacon(Color.RED)

        parts.transition = polluting
        try:
            result = inner.functional_step(good, action)
        except ValueError as error:
            assert debug
            assert str(error) == 'next_state does not satisfy state_space'
            # reward and termination did not run
            assert names(recorder.take()) == [
                'state_space.contains',
                'action_space.contains',
                'transition',
                'state_space.contains',
            ]
        else:
            assert not debug
            assert names(recorder.take()) == [
                'action_space.contains',
                'transition',
                'reward',
                'terminating',
            ]
            assert isinstance(result[0].grid[1, 1], Beacon)
        parts.transition = original

        # a reset which leaves the state space
        original_reset = parts.reset

        def polluting_reset(*, rng=None):
            s = original_reset(rng=rng)
            s.grid[1, 1] = Beacon(Color.RED)
            return s

        parts.reset = polluting_reset
        try:
            result = inner.functional_reset()
        except ValueError as error:
            assert debug
            assert str(error) == 'state does not satisfy state_space'
        else:
            assert not debug
            assert isinstance(result.grid[1, 1], Beacon)
        parts.reset = original_reset
        recorder.take()

        # an observation which leaves the observation space
        original_observation = parts.observation

        def polluting_observation(s, *, rng=None):
            o = original_observation(s, rng=rng)
            o.grid[0, 0] = Beacon(Color.RED)
            return o

        parts.observation = polluting_observation
        try:
            result = inner.functional_observation(good)
        except ValueError as error:
            assert debug
            assert (
                str(error) == 'observation does not satisfy observation_space'
            )
            assert names(recorder.take()) == [
                'observation',
                'observation_space.contains',
            ]
        else:
            assert not debug
            assert names(recorder.take()) == ['observation']
            assert isinstance(result.grid[0, 0], Beacon)
        parts.observation = original_observation
    reset_gv_debug(True)


def check_against_factory(data, seed, what):
    """the environment assembled by the YAML layer / the registered id behaves
    like the reference built from the components"""
    reset_gv_debug(True)
    inner = factory_env_from_data(copy.deepcopy(data))
    assert type(inner) is GridWorld, what
    obs_rep = make_observation_representation('default', inner.observation_space)
    env = GymEnvironment(OuterEnv(inner, observation_representation=obs_rep))
    ref = Reference(data, seed)
    inner.set_seed(seed)
    returned = env.reset()
    ref.reset()
    assert_same_arrays(returned, obs_rep.convert(ref.observe()), what)
    n = env.action_space.n
    for t, index in enumerate(index_sequence(n, seed + 2, 10)):
        returned, reward, done, info = env.step(index)
        ref_reward, ref_done = ref.step(index)
        COUNTS['steps'] += 1
        where = f'{what} t={t}'
        assert reward == ref_reward and done is ref_done and info == {}, where
        assert_same_arrays(returned, obs_rep.convert(ref.observe()), where)
        assert env.observation_space.contains(returned), where
        assert inner.state == ref.state, where
        if done:
            env.reset()
            ref.reset()


def check_registered_ids():
    reset_gv_debug(True)
    for k, (env_id, filename) in enumerate(gg.STRING_TO_YAML_FILE.items()):
        data = SHIPPED[filename]
        env = gym.make(env_id, disable_env_checker=True)
        base = env.unwrapped
        inner = base.outer_env.inner_env
        assert type(inner) is GridWorld, env_id
        obs_rep = make_observation_representation(
            'default', inner.observation_space
        )
        seed = 40 + k
        ref = Reference(data, seed)
        inner.set_seed(seed)
        returned = env.reset()
        ref.reset()
        assert_same_arrays(returned, obs_rep.convert(ref.observe()), env_id)
        for t, index in enumerate(index_sequence(base.action_space.n, seed, 8)):
            returned, reward, done, info = env.step(index)
            ref_reward, ref_done = ref.step(index)
            COUNTS['steps'] += 1
            assert reward == ref_reward and done is ref_done, (env_id, t)
            assert info == {}, (env_id, t)
            assert_same_arrays(
                returned, obs_rep.convert(ref.observe()), (env_id, t)
            )
            assert base.observation_space.contains(returned), (env_id, t)
            if done:
                env.reset()
                ref.reset()


def check_interleaved():
    """several GridWorlds in one process: separate generators, separate logs"""
    reset_gv_debug(True)
    data = EXTRA['x_keydoor_9x5_stochastic']
    triples = [make_recorded_gridworld(data) for _ in range(3)]
    refs = [Reference(data, 9), Reference(data, 9), Reference(data, 10)]
    for (inner, _, _), seed in zip(triples, (9, 9, 10)):
        inner.set_seed(seed)
    assert len({id(inner._rng) for inner, _, _ in triples}) == 3
    for (inner, _, _), ref in zip(triples, refs):
        inner.reset()
        ref.reset()
    for t in range(15):
        for (inner, parts, recorder), ref in zip(triples, refs):
            index = (3 * t + 1) % 8
            recorder.take()
            reward, done = inner.step(parts.action_space.actions[index])
            ref_reward, ref_done = ref.step(index)
            assert reward == ref_reward and done is ref_done, t
            assert inner.state == ref.state, t
            assert inner.observation == ref.observe(), t
            log = recorder.take()
            assert names(log).count('transition') == 1, t
            assert names(log).count('observation') == 1, t
            assert all(
                entry[3] is inner._rng
                for entry in log
                if entry[0] == 'transition'
            ), t
    # same seed, same actions: same trajectories;  other seed: own stream
    assert triples[0][0].state == triples[1][0].state
    assert triples[0][0].observation == triples[1][0].observation


def main():
    try:
        check_debug_errors()
        check_interleaved()
        check_registered_ids()

        configurations = dict(SHIPPED)
        configurations.update(EXTRA)
        for k, (name, data) in enumerate(configurations.items()):
            check_functional(data, 20 + k, f'{name} functional')
            check_against_factory(data, 30 + k, f'{name} factory')
            for j, (debug, use_wrapper) in enumerate(
                [(True, False), (False, True), (True, True), (False, False)]
            ):
                seed = 2 + 3 * k + j
                length = 12 if j < 2 else 5
                run_rollout(
                    data,
                    seed,
                    debug,
                    use_wrapper,
                    length,
                    f'{name} s={seed} debug={debug} wrapper={use_wrapper}',
                )
    finally:
        reset_gv_debug(None)

    assert COUNTS['steps'] > 1500, COUNTS
    assert COUNTS['episodes_done'] > 0, COUNTS
    print('C20 demo B: all checks passed', COUNTS)


if __name__ == '__main__':
    main()
